package harness

import (
	"fmt"
	"strings"
)

// ctlJobs: the scenario product of family "ctl" (see fam_ctl.go).
//
// quick:    preemption bound 1 on the whole product; bound 2 where no
//
//	consumer (or only one channel's consumer) is attached - the
//	configurations in which a blocked send can matter - and for the
//	plain Close program with every consumer.
//
// thorough: bound 2 on the whole product (with state-key pruning), then an
// unbounded pruned pass with a time budget per scenario.
func ctlJobs(tier string) []Job {
	var jobs []Job
	caps := []int{-1, 1, 4}
	add := func(h, c, cons string, capa, bound int) {
		jobs = append(jobs, Job{Family: "ctl", Bound: bound,
			Params: map[string]any{"hist": h, "ctl": c, "cons": cons, "cap": capa}})
	}
	for _, h := range CtlHists {
		for _, c := range CtlCtls {
			for _, cons := range CtlCons {
				for _, capa := range caps {
					small := cons == "none" || (c == "close" && (cons == "events" || cons == "errors"))
					if tier == "thorough" {
						if capa == 4 && c != "close" {
							continue // the third capacity only for the plain Close program
						}
						if capa == 1 && (h == "unmount" || h == "fresh" || h == "movein") && c != "close" {
							continue // the three newest histories with the default capacity (so that the bounded pass finishes within the tier's budget)
						}
						// bound 2 everywhere; revisits of a global state with no fewer preemptions are cut (state-key
						// pruning: the oracles of C05/C06/C13 are end-state and per-thread, which is what the key preserves)
						jobs = append(jobs, Job{Family: "ctl", Bound: 2, Prune: true,
							Params: map[string]any{"hist": h, "ctl": c, "cons": cons, "cap": capa}})
						// then, as far as the time allows: no preemption bound at all (default capacity)
						if capa == -1 && cons != "errors" && cons != "both-stop2" {
							jobs = append(jobs, Job{Family: "ctl", Bound: -1, Prune: true, Deepening: true, MaxSeconds: 6,
								Params: map[string]any{"hist": h, "ctl": c, "cons": cons, "cap": capa}})
						}
						_ = small
						continue
					}
					if c != "close" && (capa == 4 || capa == 1 && cons != "none" || cons == "both-stop2") {
						continue // quick: the full capacity x consumer product only for the plain Close program
					}
					if h == "fresh" && !(c == "close" || c == "add-close" || c == "close||add" || c == "close||close") {
						continue // quick: nothing-added-yet only with the programs in which the first Add matters
					}
					if h == "unmount" && !(c == "close" || c == "close||close" || c == "list-close" || c == "add||remove") {
						continue // quick: the unmount history with four programs
					}
					if h == "movein" && (c == "add-close" || c == "remove-close" || c == "list-close" || c == "close||remove") {
						continue // quick: the move-in history with half of the programs
					}
					if (cons == "none" && (capa == -1 || c == "close")) || (small && capa == -1) {
						add(h, c, cons, capa, 2)
					} else {
						add(h, c, cons, capa, 1)
					}
				}
			}
		}
	}
	return jobs
}

const ctlRule = "E1: every schedule (thread interleaving, select-arm pick, kernel-read placement) of each closed scenario {history leaving events/errors pending} x {control program} x {consumer configuration} x {Events capacity}, up to the preemption bound, run on the instrumented real code against the real kernel; a state is one maximal execution (distinct choice sequence), a transition is one scheduler step (one synchronisation operation or syscall of the real code)"

func init() {
	// sequential histories whose only oracle here is "every call returned" (a reader stuck while holding the
	// mutex shows as a WatchList that never returns): moves with and without stored cookies, in bursts
	c05seq := func(tier string) []Job {
		hs := [][]string{
			{"mv w/o/p w/d/p", "mv w/d/p w/d/q", "mv w/d/a w/d/c"},
			{"mv w/o/p w/d/p ;; mv w/d/p w/d/q ;; mv w/d/a w/d/c", "R w/d", "A w/d"},
			{"mv w/d/a w/o/a ;; mv w/d/b w/o/b", "mv w/o/a w/d/a", "mv w/d/a w/d/c"},
			{"mv w/f w/g ;; mv w/o/p w/d/p", "touch w/f ;; A w/f", "mv w/d/p w/o/p"},
		}
		// more unmatched moves out than the ten-slot cookie ring holds, one at a time and in one burst
		var one []string
		var burst []string
		for i := 0; i < 13; i++ {
			one = append(one, fmt.Sprintf("touch w/d/t%d ;; mv w/d/t%d w/o/t%d", i, i, i))
			burst = append(burst, fmt.Sprintf("touch w/d/u%d", i), fmt.Sprintf("mv w/d/u%d w/o/u%d", i, i))
		}
		hs = append(hs, append(one, "mv w/d/a w/d/c", "L"), []string{strings.Join(burst, " ;; "), "mv w/d/a w/d/c", "R w/d"})
		return chunk(map[string]any{"fix": "std", "init": []string{"A w/d", "A w/f"}}, hs, nil, 1)
	}
	Checks["C05"] = &CheckDef{Prop: "C05", Technique: "stateless model checking of the real code: preemption-bounded exhaustive schedule enumeration under a cooperative scheduler; oracle = no API call left blocked in any maximal execution",
		Rule: ctlRule, Jobs: func(tier string) []Job { return append(c05seq(tier), ctlJobs(tier)...) },
		Assume: []string{"sequentially consistent interleavings at synchronisation points", "kernel inotify is deterministic for a sequential syscall order"}}
	Checks["C06"] = &CheckDef{Prop: "C06", Technique: "stateless model checking of the real code: preemption-bounded exhaustive schedule enumeration; oracle = channel-protocol invariants of the shim (no send on/close of closed channel), channels closed and reader gone once Close returned, post-close API inert",
		Rule: ctlRule, Jobs: ctlJobs,
		Assume: []string{"sequentially consistent interleavings at synchronisation points"}}
	Checks["C13"] = &CheckDef{Prop: "C13", Technique: "stateless model checking of the real code: preemption-bounded exhaustive schedule enumeration plus init-fault enumeration; oracle = no inotify descriptor and no library goroutine left after Close returned",
		Rule:   ctlRule + "; plus family life: n create/close cycles x every subset of cycles whose inotify_init1 fails x consumer on/off",
		Jobs:   func(tier string) []Job { return append(lifeJobs(tier), ctlJobs(tier)...) },
		Assume: []string{"descriptor accounting through the syscall seam (every inotify_init1/os.NewFile/Close of the back end is intercepted)"}}
}
