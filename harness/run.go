package harness

import (
	"crypto/sha256"
	"encoding/json"
	"fmt"
	"os"
	"path/filepath"
	"sort"
	"strings"

	"verif/engine/vsched"
	"verif/engine/vsys"
)

// Violation is one property violation found in one execution.
type Violation struct {
	Property    string         `json:"property"`
	Scenario    string         `json:"scenario"`
	Params      map[string]any `json:"params,omitempty"`
	Signature   string         `json:"signature"` // stable, machine-comparable description (known-findings key)
	Detail      string         `json:"detail"`
	Choices     []int          `json:"choices"`
	Preemptions int            `json:"preemptions"`
	// Fresh: the violation did not reproduce inside the worker process that found it (the code under test
	// may keep package-level state across executions); the coordinator re-runs it from fresh processes
	Fresh bool     `json:"fresh,omitempty"`
	Trace []string `json:"trace,omitempty"`
	Log   []Obs    `json:"log,omitempty"`
}

// End is the end state of one execution.
type End struct {
	Blocked  []vsched.Blocked
	Failure  string
	Lockset  []string
	Pending  []string // API calls that never returned
	LeftOpen []int    // inotify descriptors the code under test left open
	LibAlive []string // threads spawned by the code under test that did not finish
	Steps    int
	Pruned   bool
	Livelock bool     // the step limit was reached: some thread of the code under test spins without ever blocking
	NewFds   []string // descriptors on regular paths that appeared during the execution and are still open
}

// Scenario is one closed program: a body run as thread 0 and an oracle.
type Scenario struct {
	Name   string
	Params map[string]any
	Body   func(x *X)
	// Check judges one finished execution; it may report violations of
	// several properties (the check command filters on its own).
	Check func(x *X, e *End) []Violation
	// Outcome summarises what was observable (distinct-outcome counting).
	Outcome func(x *X, e *End) string
	// LivelockIsVerdict: reaching the step limit means the code under test spins (the scenario's own steps are bounded)
	LivelockIsVerdict bool
	// CountFds: compare the process's descriptors on regular paths before and after (leak detection beyond the inotify seam)
	CountFds bool
}

// pathFds lists the targets of this process's descriptors that point at regular paths.
func pathFds() map[string]int {
	out := map[string]int{}
	ents, err := os.ReadDir("/proc/self/fd")
	if err != nil {
		return out
	}
	for _, e := range ents {
		t, err := os.Readlink("/proc/self/fd/" + e.Name())
		if err == nil && strings.HasPrefix(t, "/") && !strings.HasPrefix(t, "/proc/self/fd") && !strings.HasPrefix(t, "/dev/shm/vx-") {
			out[t]++
		}
	}
	return out
}

type ExecResult struct {
	Points     []vsched.Point
	Choices    []int
	Violations []Violation
	Outcome    string
	Steps      int
	TraceHash  uint64
	Trace      []string
	Log        []Obs
	EngineErr  string
	Pruned     bool
	Aux        string // scenario-defined extra observation (e.g. the received event sequence)
}

var workRoot string

// InitWorkRoot creates this process's private scratch directory and chdirs into it.
func InitWorkRoot() string {
	base := "/dev/shm"
	if st, err := os.Stat(base); err != nil || !st.IsDir() {
		base = os.TempDir()
	}
	d, err := os.MkdirTemp(base, "vx-")
	if err != nil {
		panic(err)
	}
	if err := os.Chdir(d); err != nil {
		panic(err)
	}
	workRoot = d
	return d
}

func CleanupWorkRoot() {
	if workRoot != "" {
		os.Chdir("/")
		os.RemoveAll(workRoot)
	}
}

// curExec: what is being executed right now (for the stall verdict, which has to be written from outside the execution).
var curExec struct {
	sc     *Scenario
	prefix []int
}

// SpinViolations is the verdict for an execution in which a thread of the code under test spins without ever
// reaching a synchronisation point: it never lets go of what it holds, so no later call returns (C05), nothing
// is delivered any more (C01) and nothing after an overflow either (C10) - the same attribution as "livelock".
func SpinViolations(where string) []Violation {
	if curExec.sc == nil {
		return nil
	}
	var out []Violation
	for _, prop := range []string{"C05", "C01", "C10"} {
		out = append(out, Violation{Property: prop, Scenario: curExec.sc.Name, Params: curExec.sc.Params, Choices: append([]int{}, curExec.prefix...),
			Signature: "a thread of the code under test spins without ever reaching a synchronisation point: " + where,
			Detail:    fmt.Sprintf("no scheduling point was reached for %v while a goroutine was busy in %s; whatever it holds is never released", vsched.StallTimeout, where)})
	}
	return out
}

// RunOnce executes the scenario once under the given choice prefix.
func RunOnce(sc *Scenario, prefix []int, keep bool, onStep func(*vsched.Sched, *X)) *ExecResult {
	curExec.sc, curExec.prefix = sc, prefix
	if workRoot == "" {
		InitWorkRoot()
	}
	root := filepath.Join(workRoot, "w")
	if err := os.RemoveAll(root); err != nil {
		panic(fmt.Sprintf("scratch tree of the previous execution cannot be removed: %v", err))
	}
	if err := os.Mkdir(root, 0o755); err != nil {
		panic(err)
	}
	s := vsched.New(prefix)
	s.KeepTrace = keep
	x := &X{S: s, Root: root, fds: map[string]int{}, Vars: map[string]any{}, Pending: map[int]string{}}
	if onStep != nil {
		s.OnStep = func(ss *vsched.Sched) { onStep(ss, x) }
		s.Shared = x.SharedDigest
	}
	res := &ExecResult{}
	var fdsBefore map[string]int
	if sc.CountFds {
		fdsBefore = pathFds()
	}
	s.Run(func() { sc.Body(x) })
	e := &End{Blocked: s.BlockedThreads(), Failure: s.Failure, Lockset: s.Lockset, Steps: s.Steps, Pruned: s.Pruned}
	for _, p := range x.Pending {
		e.Pending = append(e.Pending, p)
	}
	sort.Strings(e.Pending)
	for _, b := range e.Blocked {
		if b.Library {
			e.LibAlive = append(e.LibAlive, fmt.Sprintf("%s blocked in %s %s", b.Thread, b.Kind, b.Label))
		}
	}
	var vs *vsys.State
	if v, ok := s.Locals["vsys"]; ok {
		vs = v.(*vsys.State)
		e.LeftOpen = vs.OpenFds()
		sort.Ints(e.LeftOpen)
	}
	if sc.CountFds {
		for t, n := range pathFds() {
			if n > fdsBefore[t] {
				e.NewFds = append(e.NewFds, t)
			}
		}
		sort.Strings(e.NewFds)
	}
	if ee := s.EngineErr(); ee != nil && strings.HasPrefix(ee.Msg, "step limit") && sc.LivelockIsVerdict {
		// a spinning thread of the code under test, not an engine problem: let the scenario judge it
		e.Livelock = true
		res.Violations = sc.Check(x, e)
		res.Outcome = "livelock"
	} else if ee != nil {
		res.EngineErr = ee.Msg
	} else if !s.Pruned {
		res.Violations = sc.Check(x, e)
		if sc.Outcome != nil {
			res.Outcome = sc.Outcome(x, e)
		}
		if a, ok := x.Vars["aux"].(string); ok {
			res.Aux = a
		}
	}
	s.Teardown()
	if vs != nil {
		vs.Cleanup()
	}
	x.cleanup()
	os.RemoveAll(root)
	res.Points = s.Points
	res.Choices = make([]int, len(s.Points))
	for i, p := range s.Points {
		res.Choices[i] = p.Chosen
	}
	res.Steps = s.Steps
	res.TraceHash = s.TraceHash()
	res.Pruned = s.Pruned
	if keep {
		res.Trace = s.Trace
		res.Log = x.Log
	}
	pre := Preemptions(s.Points, len(s.Points))
	for i := range res.Violations {
		v := &res.Violations[i]
		v.Scenario = sc.Name
		v.Params = sc.Params
		v.Choices = res.Choices
		v.Preemptions = pre
	}
	return res
}

// Preemptions counts the preempting choices among the first n points.
func Preemptions(pts []vsched.Point, n int) int {
	c := 0
	for i := 0; i < n && i < len(pts); i++ {
		if !pts[i].Select && pts[i].CurEnabled && pts[i].Chosen != 0 {
			c++
		}
	}
	return c
}

type Stats struct {
	Executions   int            `json:"executions"`
	Steps        int            `json:"steps"`
	ChoicePoints int            `json:"choice_points"`
	MaxPreempt   int            `json:"max_preemptions_used"`
	Bound        int            `json:"bound"`
	BoundDone    int            `json:"bound_completed"`
	Exhaustive   bool           `json:"exhaustive"`
	Outcomes     map[string]int `json:"outcomes"`
	Pruned       int            `json:"pruned"`
	States       int            `json:"states"`
}

// Explore enumerates all schedules of the scenario with at most bound
// preemptions (iterative context bounding: everything with k preemptions is
// run before anything with k+1). bound<0 means unbounded. It stops at the
// first execution with violations when stopFirst is set. budget limits the
// number of executions (0 = none); hitting it clears Exhaustive.
func Explore(sc *Scenario, bound int, budget int, stopFirst bool, deadline func() bool,
	keyFn func(*vsched.Sched, *X) string) (Stats, []Violation, string) {
	st := Stats{Bound: bound, Outcomes: map[string]int{}, Exhaustive: true, BoundDone: -1}
	var viols []Violation
	buckets := map[int][][]int{0: {nil}}
	seen := map[[16]byte]bool{}
	var onStep func(*vsched.Sched, *X)
	if keyFn != nil {
		onStep = func(s *vsched.Sched, x *X) {
			// only prune beyond the replayed prefix
			if len(s.Points) < s.PrefixLen() {
				return
			}
			k := keyFn(s, x)
			if k == "" {
				return // no trustworthy key (an object without a stable id): never merge
			}
			h := sha256.Sum256([]byte(k))
			var hk [16]byte
			copy(hk[:], h[:16])
			if seen[hk] {
				s.Prune = true
				return
			}
			seen[hk] = true
		}
	}
	minBucket := func() int {
		m := -1
		for kk, l := range buckets {
			if len(l) > 0 && (m < 0 || kk < m) {
				m = kk
			}
		}
		return m
	}
	for {
		k := minBucket()
		if k < 0 {
			st.BoundDone = bound // everything within the bound was run (bound<0: everything)
			break
		}
		if deadline != nil && deadline() || budget > 0 && st.Executions >= budget {
			st.Exhaustive = false
			st.BoundDone = k - 1
			break
		}
		l := buckets[k]
		prefix := l[len(l)-1]
		buckets[k] = l[:len(l)-1]
		r := RunOnce(sc, prefix, false, onStep)
		if r.EngineErr != "" {
			return st, viols, fmt.Sprintf("%s (scenario %s, prefix %v)", r.EngineErr, sc.Name, prefix)
		}
		st.Executions++
		st.Steps += r.Steps
		st.ChoicePoints += len(r.Points)
		if r.Pruned {
			st.Pruned++
		} else {
			st.Outcomes[r.Outcome]++
		}
		if p := Preemptions(r.Points, len(r.Points)); p > st.MaxPreempt {
			st.MaxPreempt = p
		}
		if len(r.Violations) > 0 {
			viols = append(viols, r.Violations...)
			if stopFirst {
				st.Exhaustive = false
				st.BoundDone = k - 1
				break
			}
		}
		cost := Preemptions(r.Points, len(prefix))
		for i := len(prefix); i < len(r.Points); i++ {
			p := r.Points[i]
			for alt := 1; alt < p.N; alt++ {
				c := cost
				if !p.Select && p.CurEnabled {
					c++
				}
				if bound >= 0 && c > bound {
					continue
				}
				np := make([]int, i+1)
				copy(np, r.Choices[:i])
				np[i] = alt
				buckets[c] = append(buckets[c], np)
			}
			// the default choice at point i costs nothing; cost stays
		}
	}
	st.States = len(seen)
	return st, viols, ""
}

// WriteReplay stores a violation as a replayable artefact and returns its path.
func WriteReplay(dir string, v *Violation) string {
	os.MkdirAll(filepath.Join(dir, v.Property), 0o755)
	b, _ := json.MarshalIndent(v, "", " ")
	h := uint64(1469598103934665603)
	for _, c := range []byte(v.Scenario + v.Signature + fmt.Sprint(v.Params, v.Choices)) {
		h ^= uint64(c)
		h *= 1099511628211
	}
	p := filepath.Join(dir, v.Property, fmt.Sprintf("%s-%016x.json", sanitize(v.Scenario), h))
	os.WriteFile(p, b, 0o644)
	return p
}

func sanitize(s string) string {
	return strings.Map(func(r rune) rune {
		if r >= 'a' && r <= 'z' || r >= 'A' && r <= 'Z' || r >= '0' && r <= '9' || r == '-' || r == '_' {
			return r
		}
		return '_'
	}, s)
}
