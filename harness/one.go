package harness

import (
	"encoding/json"
	"fmt"
	"os"
	"runtime/pprof"
	"strconv"
	"time"
)

// OneMain explores a single scenario in-process (debugging aid):
// vharn one <family> '<params json>' <bound> [trace]
func OneMain(args []string) int {
	if len(args) < 3 {
		fmt.Fprintln(os.Stderr, "one: family params bound")
		return 2
	}
	var p map[string]any
	if err := json.Unmarshal([]byte(args[1]), &p); err != nil {
		fmt.Fprintln(os.Stderr, err)
		return 2
	}
	bound, _ := strconv.Atoi(args[2])
	tuneCloses(1)
	InitWorkRoot()
	defer CleanupWorkRoot()
	if len(args) > 3 && args[3] == "trace" {
		sc := Families[args[0]](p)
		r := RunOnce(sc, nil, true, nil)
		for _, l := range r.Trace {
			fmt.Println(l)
		}
		fmt.Println("engineErr:", r.EngineErr, "violations:", len(r.Violations), "outcome:", r.Outcome)
		for _, v := range r.Violations {
			fmt.Printf("  %s %q\n     %s\n", v.Property, v.Signature, v.Detail)
		}
		return 0
	}
	if pf := os.Getenv("VPROF"); pf != "" {
		f, _ := os.Create(pf)
		pprof.StartCPUProfile(f)
		defer pprof.StopCPUProfile()
	}
	t0 := time.Now()
	r := runJob(Job{Family: args[0], Params: p, Bound: bound, Prune: bound < 0 || os.Getenv("VPRUNE") != ""})
	fmt.Printf("execs=%d pruned=%d states=%d steps=%d points=%d maxpre=%d boundDone=%d exhaustive=%v outcomes=%d in %.2fs (%.0f exec/s)\n",
		r.Stats.Executions, r.Stats.Pruned, r.Stats.States, r.Stats.Steps, r.Stats.ChoicePoints, r.Stats.MaxPreempt, r.Stats.BoundDone, r.Stats.Exhaustive,
		len(r.Stats.Outcomes), time.Since(t0).Seconds(), float64(r.Stats.Executions)/time.Since(t0).Seconds())
	if r.EngineErr != "" {
		fmt.Println("ENGINE-ERROR:", r.EngineErr)
	}
	for o, n := range r.Stats.Outcomes {
		fmt.Printf("  %6d  %s\n", n, o)
	}
	for _, v := range r.Violations {
		fmt.Printf("VIOLATION %s pre=%d %q\n   %s\n   choices=%v\n", v.Property, v.Preemptions, v.Signature, v.Detail, v.Choices)
	}
	return 0
}
