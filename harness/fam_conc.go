package harness

import (
	"fmt"
	"os"
	"path/filepath"
	"sort"
	"strings"

	"github.com/anishathalye/porcupine"
)

// Family "conc" (C07): a few API threads and one filesystem thread on colliding
// paths; every schedule up to the preemption bound; per execution: lockset
// assertions, no panic, no deadlock, and linearizability of the recorded
// call/return history against the sequential watch-set model (porcupine).
//
// params: init (list of "A path"), t1, t2 (";"-separated ops: "A p", "R p", "L", "C"), fs (";"-separated filesystem ops)

func init() { Families["conc"] = concScenario }

func splitOps(s string) []string {
	var out []string
	for _, p := range strings.Split(s, ";") {
		if p = strings.TrimSpace(p); p != "" {
			out = append(out, p)
		}
	}
	return out
}

func concScenario(p map[string]any) *Scenario {
	initOps, t1, t2, fsops := pstrs(p, "init"), splitOps(pstr(p, "t1", "")), splitOps(pstr(p, "t2", "")), splitOps(pstr(p, "fs", ""))
	sc := &Scenario{Name: fmt.Sprintf("conc/%s|%s|%s|%s", strings.Join(initOps, ";"), strings.Join(t1, ";"), strings.Join(t2, ";"), strings.Join(fsops, ";")), Params: p}
	sc.Body = func(x *X) {
		mkFixture("std")
		// a buffer that holds every event of these short programs: the reader
		// never waits for a consumer, which keeps the thread count down
		w, err := x.NewWatcher(64)
		mustNil(err)
		api := func(op string) {
			f := strings.Fields(op)
			switch f[0] {
			case "A":
				x.Add(w, f[1])
			case "R":
				x.Remove(w, f[1])
			case "L":
				x.WatchList(w)
			case "C":
				x.Close(w)
			}
		}
		for _, op := range initOps {
			api(op)
		}
		x.Note("init-done")
		run := func(name string, ops []string, f func(string)) {
			if len(ops) == 0 {
				return
			}
			goNamed(name, func() {
				for _, op := range ops {
					f(op)
				}
			})
		}
		run("t1", t1, api)
		run("t2", t2, api)
		st := &SeqState{X: x, W: w}
		run("fs", fsops, func(op string) { st.DoOp(op) })
	}
	sc.Check = func(x *X, e *End) []Violation {
		var out []Violation
		for _, l := range e.Lockset {
			out = append(out, Violation{Property: "C07", Signature: "lockset: " + firstWords(l), Detail: l})
			break
		}
		if e.Failure != "" {
			out = append(out, Violation{Property: "C07", Signature: "panic: " + panicSite(e.Failure), Detail: e.Failure})
			return out
		}
		if len(e.Pending) > 0 {
			out = append(out, Violation{Property: "C07", Signature: "deadlock: calls never returned", Detail: fmt.Sprint(e.Pending, e.Blocked)})
			return out
		}
		// WatchList sanity: no duplicates, nothing that was never added
		added := map[string]bool{}
		for _, o := range x.Log {
			if o.Kind == "call" && o.What == "Add" {
				added[filepath.Clean(o.Arg)] = true
			}
			if o.Kind == "ret" && o.What == "WatchList" {
				seen := map[string]bool{}
				for _, pth := range o.List {
					if seen[pth] {
						out = append(out, Violation{Property: "C07", Signature: "WatchList shows a path twice", Detail: fmt.Sprint(o.List)})
					}
					seen[pth] = true
					if !added[pth] {
						out = append(out, Violation{Property: "C07", Signature: "WatchList shows a path that was never added", Detail: fmt.Sprint(o.List)})
					}
				}
			}
		}
		if msg := linearizable(x); msg != "" {
			out = append(out, Violation{Property: "C07", Signature: "results are not consistent with any sequential order of the calls", Detail: msg})
		}
		return out
	}
	sc.Outcome = func(x *X, e *End) string {
		var b strings.Builder
		for _, o := range x.Log {
			if o.Kind == "ret" {
				fmt.Fprintf(&b, "%s(%s)=%s%v;", o.What, o.Arg, o.Err, o.List)
			}
		}
		return b.String()
	}
	return sc
}

// ---- sequential specification for the linearizability check ----

type lentry struct {
	id     int
	zombie bool // its file was deleted / renamed; the library may or may not have noticed yet
}

type lstate struct {
	listed map[string]lentry
	closed bool
}

func (s lstate) key() string {
	var k []string
	for p, e := range s.listed {
		k = append(k, fmt.Sprintf("%s=%d:%t", p, e.id, e.zombie))
	}
	sort.Strings(k)
	return fmt.Sprintf("%t|%s", s.closed, strings.Join(k, ","))
}

func (s lstate) clone() lstate {
	n := lstate{listed: map[string]lentry{}, closed: s.closed}
	for k, v := range s.listed {
		n.listed[k] = v
	}
	return n
}

type linIn struct {
	what string // Add Remove WatchList Close fs
	arg  string
	// facts fixed by the filesystem thread's own total order, resolved when the history is built
	ids        []int // Add: the identities the path may name while the call runs (0 = does not resolve); more than one only if a filesystem step on that path overlaps the call
	killed     []int // fs: identities whose watches end with this step (deleted or renamed)
	racesClose bool  // the call overlaps a Close: any error is acceptable
}

type linOut struct {
	err  string
	list []string
}

// variants: a zombie may have been noticed (and dropped) by the reader at any time
func variants(s lstate) []lstate {
	var z []string
	for p, e := range s.listed {
		if e.zombie {
			z = append(z, p)
		}
	}
	sort.Strings(z)
	out := []lstate{}
	for m := 0; m < 1<<len(z); m++ {
		n := s.clone()
		for i, p := range z {
			if m&(1<<i) != 0 {
				delete(n.listed, p)
			}
		}
		out = append(out, n)
	}
	return out
}

func linStep(st interface{}, in interface{}, out interface{}) []interface{} {
	s, i, o := st.(lstate), in.(linIn), out.(linOut)
	var res []interface{}
	add := func(n lstate) { res = append(res, n) }
	for _, v := range variants(s) {
		switch i.what {
		case "fs":
			n := v.clone()
			for p, e := range n.listed {
				for _, k := range i.killed {
					if e.id == k {
						e.zombie = true
						n.listed[p] = e
					}
				}
			}
			add(n)
		case "Close":
			n := v.clone()
			n.closed = true
			n.listed = map[string]lentry{}
			add(n)
		case "WatchList":
			if v.closed {
				if o.err == "nil-list" {
					add(v)
				}
				continue
			}
			var want []string
			for p := range v.listed {
				want = append(want, p)
			}
			sort.Strings(want)
			if strings.Join(want, "\x00") == strings.Join(o.list, "\x00") && o.err != "nil-list" {
				add(v)
			}
		case "Remove":
			cp := filepath.Clean(i.arg)
			if v.closed {
				if o.err == "" {
					add(v)
				}
				continue
			}
			e, ok := v.listed[cp]
			if !ok {
				if o.err == "ErrNonExistentWatch" {
					add(v)
				}
				continue
			}
			n := v.clone()
			delete(n.listed, cp)
			if o.err == "" || e.zombie && (o.err == "EINVAL" || o.err == "ErrNonExistentWatch") || i.racesClose && o.err != "" {
				add(n)
			}
		case "Add":
			cp := filepath.Clean(i.arg)
			if v.closed {
				if o.err == "ErrClosed" {
					add(v)
				}
				continue
			}
			if i.racesClose && o.err != "" {
				add(v)
				continue
			}
			for _, id := range i.ids {
				if id == 0 {
					if o.err != "" && o.err != "ErrClosed" {
						add(v)
					}
					continue
				}
				if o.err != "" {
					continue
				}
				n := v.clone()
				if e, ok := n.listed[cp]; ok {
					if e.id != id {
						dup := false
						for p2, e2 := range n.listed {
							if p2 != cp && e2.id == id {
								dup = true
							}
						}
						if dup {
							delete(n.listed, cp)
						} else {
							n.listed[cp] = lentry{id: id}
						}
					}
				} else {
					dup := false
					for _, e2 := range n.listed {
						if e2.id == id {
							dup = true
						}
					}
					if !dup {
						n.listed[cp] = lentry{id: id}
					}
				}
				add(n)
			}
		}
	}
	return res
}

var linNd = &porcupine.NondeterministicModel{
	Init:  func() []interface{} { return []interface{}{lstate{listed: map[string]lentry{}}} },
	Step:  linStep,
	Equal: func(a, b interface{}) bool { return a.(lstate).key() == b.(lstate).key() },
	DescribeOperation: func(in, out interface{}) string {
		i, o := in.(linIn), out.(linOut)
		return fmt.Sprintf("%s(%s)[ids %v kill %v racesClose %t] -> %s %v", i.what, i.arg, i.ids, i.killed, i.racesClose, o.err, o.list)
	},
}

var linModel = linNd.ToModel()

// linearizable builds the operation history from the log and asks porcupine.
// Filesystem steps are zero-width operations; the identity of the file an Add
// resolves to is read off the filesystem thread's own order: an Add that does
// not overlap any filesystem step on its path sees one definite file, an Add
// that does may see the file before or after that step.
func linearizable(x *X) string {
	// identities: replay the filesystem steps over the fixture
	type fsev struct {
		seq  int
		what string
		a, b string
	}
	ids := map[string]int{} // resolved path -> identity
	next := 1
	fresh := func() int { next++; return next }
	resolve := func(p string) string { // the fixture's symlinks
		p = filepath.Clean(p)
		p = strings.TrimPrefix(p, x.Root+"/")
		p = strings.TrimPrefix(p, "w/")
		switch {
		case p == "lf":
			return "f"
		case p == "ld" || p == "lda":
			return "d"
		case strings.HasPrefix(p, "ld/"):
			return "d/" + p[3:]
		}
		return p
	}
	for _, p := range []string{"d", "d2", "o", "f", "d/a", "d/b", "d/s", "o/p", "d/s/x"} {
		ids[p] = fresh()
	}
	var ops []porcupine.Operation
	calls := map[int]Obs{}
	type pendingAdd struct {
		idx      int
		path     string
		callSeq  int
		retSeq   int
		idAtCall int
	}
	var adds []pendingAdd
	type change struct {
		seq    int
		path   string
		before int
		after  int
	}
	var changes []change
	client := map[string]int{}
	cid := func(t string) int {
		if _, ok := client[t]; !ok {
			client[t] = len(client)
		}
		return client[t]
	}
	for _, o := range x.Log {
		switch o.Kind {
		case "fs":
			if o.Err != "" {
				continue
			}
			f := strings.Fields(o.Arg)
			var killed []int
			set := func(p string, id int) {
				rp := resolve(p)
				changes = append(changes, change{o.Seq, rp, ids[rp], id})
				if id == 0 {
					delete(ids, rp)
				} else {
					ids[rp] = id
				}
			}
			switch o.What {
			case "rm", "rmdir":
				killed = append(killed, ids[resolve(f[0])])
				set(f[0], 0)
			case "touch", "mkdir":
				set(f[0], fresh())
			case "mv":
				id := ids[resolve(f[0])]
				killed = append(killed, id) // a renamed watch ends
				if old := ids[resolve(f[1])]; old != 0 {
					killed = append(killed, old)
				}
				set(f[0], 0)
				set(f[1], id)
			case "write", "chmod", "truncate":
			default:
				continue
			}
			ops = append(ops, porcupine.Operation{ClientId: cid(o.Thread), Input: linIn{what: "fs", arg: o.What + " " + o.Arg, killed: killed}, Call: int64(o.Seq), Output: linOut{}, Return: int64(o.Seq)})
		case "call":
			calls[o.CallID] = o
			if o.What == "Add" {
				adds = append(adds, pendingAdd{path: resolve(o.Arg), callSeq: o.Seq, idAtCall: ids[resolve(o.Arg)], idx: o.CallID})
			}
		case "ret":
			c, ok := calls[o.CallID]
			if !ok {
				continue
			}
			in := linIn{what: o.What, arg: o.Arg}
			if o.What == "Add" {
				for _, a := range adds {
					if a.idx == o.CallID {
						in.ids = []int{a.idAtCall}
						// filesystem steps on this path between call and return: any identity in between is possible
						for _, ch := range changes {
							if ch.path == a.path && ch.seq > a.callSeq && ch.seq < o.Seq {
								in.ids = append(in.ids, ch.after)
							}
						}
					}
				}
			}
			for _, o2 := range x.Log {
				if o2.What == "Close" && o2.Kind == "call" && o.What != "Close" {
					// the Close interval [call, ret]; its return may be missing from the log if it never returned
					cret := 1 << 30
					for _, o3 := range x.Log {
						if o3.Kind == "ret" && o3.CallID == o2.CallID {
							cret = o3.Seq
						}
					}
					if o2.Seq <= o.Seq && cret >= c.Seq {
						in.racesClose = true
					}
				}
			}
			ops = append(ops, porcupine.Operation{ClientId: cid(o.Thread), Input: in, Call: int64(c.Seq), Output: linOut{err: o.Err, list: o.List}, Return: int64(o.Seq)})
		}
	}
	if porcupine.CheckOperations(linModel, ops) {
		return ""
	}
	var b strings.Builder
	for _, op := range ops {
		fmt.Fprintf(&b, "[%d,%d] client %d: %s\n", op.Call, op.Return, op.ClientId, linModel.DescribeOperation(op.Input, op.Output))
	}
	return b.String()
}

var _ = os.Stat
