package harness

import (
	"fmt"
	"os"
	"syscall"

	"verif/engine/vsys"
)

// Family "life": create/close cycles with inotify_init1 failing at chosen
// cycles (C13). params: n (cycles), fail (bitmask of cycles whose NewWatcher
// fails), cons (consumer on/off), work (what each live watcher does).
func init() { Families["life"] = lifeScenario }

func lifeScenario(p map[string]any) *Scenario {
	n, fail, cons, work := pint(p, "n", 3), pint(p, "fail", 0), pstr(p, "cons", "both"), pstr(p, "work", "touch")
	sc := &Scenario{Name: fmt.Sprintf("life/n%d/fail%d/%s/%s", n, fail, cons, work), Params: p, CountFds: true}
	sc.Body = func(x *X) {
		mustNil(os.Mkdir("w/d", 0o755))
		vs := vsys.Get()
		vs.InitFail = map[int]error{}
		for i := 0; i < n; i++ {
			if fail&(1<<i) != 0 {
				vs.InitFail[i] = syscall.EMFILE
			}
		}
		for i := 0; i < n; i++ {
			fdsBefore, thrBefore := len(vs.Fds), len(x.S.Threads())
			w, err := x.NewWatcher(-1)
			if err != nil {
				x.obs(Obs{Kind: "note", What: "newwatcher-failed", Arg: fmt.Sprintf("fds+%d threads+%d w-nil=%t", len(vs.Fds)-fdsBefore, len(x.S.Threads())-thrBefore, w == nil)})
				continue
			}
			if cons == "both" {
				x.Consume(w, fmt.Sprintf("consumer%d", i), ConsumerMode{Events: true, Errors: true})
			}
			x.Add(w, "w/d")
			switch work {
			case "touch":
				x.Touch(fmt.Sprintf("w/d/n%d", i))
			case "none":
			}
			x.Close(w)
		}
	}
	sc.Check = func(x *X, e *End) []Violation {
		var out []Violation
		for _, o := range x.Log {
			if o.Kind == "note" && o.What == "inheritable-descriptor" {
				out = append(out, Violation{Property: "C13", Signature: "the notification descriptor is inheritable by child processes (not close-on-exec), so Close does not release the instance while a child lives", Detail: o.Arg})
				break
			}
		}
		if len(e.Pending) > 0 {
			out = append(out, Violation{Property: "C05", Signature: "life: call never returned", Detail: fmt.Sprint(e.Pending, e.Blocked)})
		}
		if e.Failure != "" {
			out = append(out, Violation{Property: "C06", Signature: "panic: " + firstLine(e.Failure), Detail: e.Failure})
		}
		for _, o := range x.Log {
			if o.Kind == "note" && o.What == "newwatcher-failed" && o.Arg != "fds+0 threads+0 w-nil=true" {
				out = append(out, Violation{Property: "C13", Signature: "failed NewWatcher leaked: " + o.Arg, Detail: o.Arg})
			}
		}
		if len(e.NewFds) > 0 {
			out = append(out, Violation{Property: "C13", Signature: "descriptor leaked across create/close cycles: " + e.NewFds[0], Detail: fmt.Sprint(e.NewFds)})
		}
		if len(e.Pending) == 0 && (len(e.LeftOpen) > 0 || len(e.LibAlive) > 0) {
			out = append(out, Violation{Property: "C13",
				Signature: fmt.Sprintf("after %d create/close cycles: %d inotify descriptors open, %d library goroutines alive", n, len(e.LeftOpen), len(e.LibAlive)),
				Detail:    fmt.Sprintf("fds %v threads %v", e.LeftOpen, e.LibAlive)})
		}
		return out
	}
	sc.Outcome = func(x *X, e *End) string {
		s := ""
		for _, o := range x.Log {
			if o.Kind == "ret" || o.Kind == "note" {
				s += o.What + "=" + o.Err + o.Arg + ";"
			}
		}
		return s + fmt.Sprintf("open=%d alive=%d", len(e.LeftOpen), len(e.LibAlive))
	}
	return sc
}

func lifeJobs(tier string) []Job {
	var jobs []Job
	add := func(n, bound int, conss []string) {
		for fail := 0; fail < 1<<n; fail++ {
			for _, cons := range conss {
				for _, work := range []string{"none", "touch"} {
					jobs = append(jobs, Job{Family: "life", Bound: bound, Params: map[string]any{"n": n, "fail": fail, "cons": cons, "work": work}})
				}
			}
		}
	}
	if tier == "thorough" {
		add(3, 1, []string{"both"})
		add(2, 2, []string{"both"})
		add(4, 2, []string{"none"})
		return jobs
	}
	add(2, 1, []string{"both", "none"})
	add(3, 1, []string{"none"})
	return jobs
}
