package harness

import (
	"fmt"
	"strings"

	"verif/engine/vsys"
)

// Family "order" (C03): a short sequential filesystem history against every
// interleaving of reader, consumer and harness (consumer pace is nothing but
// schedule), for several Events capacities. Oracle: the received sequence is
// the translated kernel sequence, in order.
//
// params: cap, hist (";"-separated filesystem ops), cons ("both" | "events")

func init() { Families["order"] = orderScenario }

func orderScenario(p map[string]any) *Scenario {
	capa, hist := pint(p, "cap", -1), splitOps(pstr(p, "hist", "touch w/d/n1; touch w/d/n2; touch w/d/n3"))
	sc := &Scenario{Name: fmt.Sprintf("order/cap%d/%s", capa, strings.Join(hist, ";")), Params: p}
	sc.Body = func(x *X) {
		mkFixture("std")
		w, err := x.NewWatcher(capa)
		mustNil(err)
		st := &SeqState{X: x, W: w, M: NewIdeal(), Skip: map[string]bool{}}
		x.Vars["seq"] = st
		vs := vsys.Get()
		for _, pth := range []string{"w/d", "w/f"} {
			before := len(vs.Calls)
			e := x.Add(w, pth)
			st.M.Add(pth, e, append([]vsys.Call{}, vs.Calls[before:]...), 0)
		}
		x.Consume(w, "consumer", ConsumerMode{Events: true, Errors: pstr(p, "cons", "both") == "both"})
		for _, op := range hist {
			st.DoOp(op)
		}
	}
	sc.Check = func(x *X, e *End) []Violation {
		var out []Violation
		if e.Failure != "" {
			return []Violation{{Property: "C06", Signature: "panic: " + panicSite(e.Failure), Detail: e.Failure}}
		}
		st := x.Vars["seq"].(*SeqState)
		vs := vsys.Get()
		var exp []Expect
		var pos int64
		for _, b := range vs.Reads {
			recs, _ := ParseRecords(b, pos)
			pos += int64(len(b))
			for _, r := range recs {
				exp = append(exp, st.M.Record(r))
			}
		}
		// everything the kernel queued must have been read in a maximal execution
		var got []Got
		for _, o := range x.Log {
			if o.Kind == "event" {
				got = append(got, Got{o.Name, o.Op, o.From})
			}
		}
		for _, pr := range Align(exp, got) {
			for _, prop := range catProp[pr.Cat] {
				out = append(out, Violation{Property: prop, Signature: pr.Cat + ": " + pr.Sig, Detail: pr.Detail})
			}
		}
		return out
	}
	sc.Outcome = func(x *X, e *End) string {
		var b strings.Builder
		for _, o := range x.Log {
			if o.Kind == "event" {
				fmt.Fprintf(&b, "%d:%s;", o.Op, o.Name)
			}
		}
		fmt.Fprintf(&b, "reads=%d", len(vsys.Get().Reads))
		return b.String()
	}
	return sc
}

func orderJobs(tier string) []Job {
	var jobs []Job
	hists := []string{"touch w/d/n1; touch w/d/n2; touch w/d/n3", "touch w/d/n1; write w/d/n1; rm w/d/n1", "mv w/d/a w/d/c; write w/f; touch w/d/n", "write w/f; mv w/f w/g; touch w/d/n"}
	caps := []int{-1, 1, 2, 64}
	bound := 2
	for _, h := range hists {
		for _, c := range caps {
			b := bound
			if tier != "thorough" && c != -1 && c != 1 {
				b = 1
			}
			jobs = append(jobs, Job{Family: "order", Bound: b, Params: map[string]any{"cap": c, "hist": h}})
		}
	}
	return jobs
}
