package harness

import (
	"fmt"
	"strings"

	"verif/engine/vsys"
)

// Family "order" (C03): a short sequential filesystem history against every
// interleaving of reader, consumer and harness (consumer pace is nothing but
// schedule), for several Events capacities. Oracle: the received sequence is
// the translated kernel sequence, in order.
//
// params: cap, hist (";"-separated filesystem ops), cons ("both" | "events")

func init() { Families["order"] = orderScenario }

func orderScenario(p map[string]any) *Scenario {
	capa, hist := pint(p, "cap", -1), splitOps(pstr(p, "hist", "touch w/d/n1; touch w/d/n2; touch w/d/n3"))
	w2 := splitOps(pstr(p, "w2", "")) // paths a second Watcher adds (in this order), "" = no second Watcher
	sc := &Scenario{Name: fmt.Sprintf("order/cap%d/%s/%s", capa, strings.Join(hist, ";"), strings.Join(w2, ";")), Params: p}
	type wst struct {
		st *SeqState
		fd int
	}
	sc.Body = func(x *X) {
		mkFixture("std")
		var ws []*wst
		mk := func(paths []string) {
			w, err := x.NewWatcher(capa)
			mustNil(err)
			vs := vsys.Get()
			st := &SeqState{X: x, W: w, WI: x.widx(w), M: NewIdeal(), Skip: map[string]bool{}}
			for _, pth := range paths {
				before := len(vs.Calls)
				e := x.Add(w, pth)
				st.M.Add(pth, e, append([]vsys.Call{}, vs.Calls[before:]...), 0)
			}
			ws = append(ws, &wst{st, vs.Fds[len(vs.Fds)-1]})
			if len(w2) == 0 {
				x.Consume(w, fmt.Sprintf("consumer%d", st.WI), ConsumerMode{Events: true, Errors: pstr(p, "cons", "both") == "both"})
			}
		}
		if len(w2) > 0 {
			capa = 64 // two Watchers: large buffers and consumers attached afterwards, so that only the harness and the two readers interleave
		}
		mk([]string{"w/d", "w/f"})
		if len(w2) > 0 {
			mk(w2)
		}
		x.Vars["ws"] = ws
		for _, op := range hist {
			ws[0].st.DoOp(op)
		}
		if len(w2) > 0 {
			x.Quiesce()
			for _, w := range ws {
				x.Consume(w.st.W, fmt.Sprintf("consumer%d", w.st.WI), ConsumerMode{Events: true})
			}
		}
	}
	sc.Check = func(x *X, e *End) []Violation {
		var out []Violation
		if e.Failure != "" {
			return []Violation{{Property: "C06", Signature: "panic: " + panicSite(e.Failure), Detail: e.Failure}}
		}
		ws, _ := x.Vars["ws"].([]*wst)
		vs := vsys.Get()
		for wi, w := range ws {
			var exp []Expect
			var pos int64
			for i, b := range vs.Reads {
				if vs.ReadFd[i] != w.fd {
					continue
				}
				recs, _ := ParseRecords(b, pos)
				pos += int64(len(b))
				for _, r := range recs {
					exp = append(exp, w.st.M.Record(r))
				}
			}
			var got []Got
			for _, o := range x.Log {
				if o.Kind == "event" && o.W == wi {
					got = append(got, Got{o.Name, o.Op, o.From})
				}
			}
			for _, pr := range Align(exp, got) {
				props := catProp[pr.Cat]
				if len(ws) > 1 {
					props = append(append([]string{}, props...), "C14")
				}
				for _, prop := range props {
					out = append(out, Violation{Property: prop, Signature: fmt.Sprintf("watcher %d: %s: %s", wi, pr.Cat, pr.Sig), Detail: pr.Detail})
				}
			}
		}
		return out
	}
	sc.Outcome = func(x *X, e *End) string {
		var b strings.Builder
		for _, o := range x.Log {
			if o.Kind == "event" {
				fmt.Fprintf(&b, "%d:%d:%s;", o.W, o.Op, o.Name)
			}
		}
		fmt.Fprintf(&b, "reads=%d", len(vsys.Get().Reads))
		return b.String()
	}
	return sc
}

// multiJobs: two Watchers on the same paths whose watch descriptors are numbered
// differently, every interleaving of the two readers, their consumers and the
// harness up to the bound (C14: nothing may be shared between Watchers).
func multiJobs(tier string) []Job {
	var jobs []Job
	bound := 2
	if tier == "thorough" {
		bound = 3
	}
	for _, h := range []string{"touch w/d/n1; write w/f", "write w/f; touch w/d/n1; rm w/d/n1", "mv w/d/a w/d/c; write w/f"} {
		for _, w2 := range []string{"w/f; w/d", "w/d2; w/f; w/d", "w/d"} {
			jobs = append(jobs, Job{Family: "order", Bound: bound, Params: map[string]any{"cap": -1, "hist": h, "w2": w2, "cons": "events"}})
		}
	}
	return jobs
}

func orderJobs(tier string) []Job {
	var jobs []Job
	hists := []string{"touch w/d/n1; touch w/d/n2; touch w/d/n3", "touch w/d/n1; write w/d/n1; rm w/d/n1", "mv w/d/a w/d/c; write w/f; touch w/d/n", "write w/f; mv w/f w/g; touch w/d/n"}
	caps := []int{-1, 1, 2, 64}
	bound := 2
	for _, h := range hists {
		for _, c := range caps {
			b := bound
			if tier != "thorough" && c != -1 && c != 1 {
				b = 1
			}
			jobs = append(jobs, Job{Family: "order", Bound: b, Params: map[string]any{"cap": c, "hist": h}})
		}
	}
	return jobs
}
