package harness

import (
	"fmt"
	"os"
	"strconv"
	"strings"

	"verif/gen/fsnotify"
)

// Family "opsconc" (C15, subscription side under concurrency): two callers
// request different operation sets for the same path at the same time (with
// or without an earlier request); whatever the interleaving, the kernel-side
// mask of the watch must end up as the flags needed for everything requested.
//
// params: init, t1, t2: lists of "AW <path> <hex ops>" / "A <path>"

func init() { Families["opsconc"] = opsConcScenario }

func opsConcScenario(p map[string]any) *Scenario {
	initOps, t1, t2 := pstrs(p, "init"), pstrs(p, "t1"), pstrs(p, "t2")
	sc := &Scenario{Name: fmt.Sprintf("opsconc/%s|%s|%s", strings.Join(initOps, ";"), strings.Join(t1, ";"), strings.Join(t2, ";")), Params: p}
	want := map[string]uint32{} // path -> union of requested operations
	parse := func(op string) (string, uint32) {
		f := strings.Fields(op)
		ops := uint32(0x1f)
		if f[0] == "AW" {
			v, _ := strconv.ParseUint(f[2], 16, 32)
			ops = uint32(v)
		}
		return f[1], ops
	}
	for _, l := range [][]string{initOps, t1, t2} {
		for _, op := range l {
			pth, ops := parse(op)
			want[pth] |= ops
		}
	}
	sc.Body = func(x *X) {
		mustNil(os.Mkdir("w/d", 0o755))
		mustNil(os.WriteFile("w/f", []byte("x"), 0o644))
		w, err := x.NewWatcher(-1)
		mustNil(err)
		x.Consume(w, "consumer", ConsumerMode{Events: true, Errors: true})
		do := func(op string) {
			pth, ops := parse(op)
			if strings.HasPrefix(op, "AW") {
				x.AddOps(w, pth, ops)
			} else {
				x.Add(w, pth)
			}
		}
		for _, op := range initOps {
			do(op)
		}
		for i, l := range [][]string{t1, t2} {
			l := l
			goNamed(fmt.Sprintf("caller%d", i+1), func() {
				for _, op := range l {
					do(op)
				}
			})
		}
	}
	sc.Check = func(x *X, e *End) []Violation {
		var out []Violation
		if e.Failure != "" {
			return []Violation{{Property: "C15", Signature: "panic: " + panicSite(e.Failure), Detail: e.Failure}}
		}
		if len(e.Pending) > 0 {
			return []Violation{{Property: "C15", Signature: "call never returned: " + strings.Join(e.Pending, ","), Detail: fmt.Sprint(e.Blocked)}}
		}
		for _, o := range x.Log {
			if o.Kind == "ret" && o.What == "Add" && o.Err != "" {
				out = append(out, Violation{Property: "C15", Signature: "a request for a valid operation set failed: " + o.Err, Detail: fmt.Sprintf("%+v", o)})
			}
		}
		if len(x.Watchers) == 0 {
			return out
		}
		marks := readMarks(fsnotify.VerifFd(x.Watchers[0]))
		for pth, ops := range want {
			ino, err := statIno(pth, true)
			if err != nil {
				continue
			}
			found := false
			for _, m := range marks {
				if m.ino != ino {
					continue
				}
				found = true
				if m.mask&0xfff != flagsFor(ops) {
					out = append(out, Violation{Property: "C15",
						Signature: "after concurrent requests the kernel-side mask of the watch is not the flags needed for everything requested",
						Detail:    fmt.Sprintf("%s: kernel mask %#x, requested operations %#x need %#x", pth, m.mask&0xfff, ops, flagsFor(ops))})
				}
			}
			if !found {
				out = append(out, Violation{Property: "C15", Signature: "after concurrent requests no kernel watch is on the path", Detail: pth})
			}
		}
		return out
	}
	sc.Outcome = func(x *X, e *End) string {
		var b strings.Builder
		if len(x.Watchers) > 0 {
			for _, m := range readMarks(fsnotify.VerifFd(x.Watchers[0])) {
				fmt.Fprintf(&b, "%#x;", m.mask&0xfff)
			}
		}
		return b.String()
	}
	return sc
}
