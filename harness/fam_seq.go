package harness

import (
	"fmt"
	"os"
	"strings"
)

// Family "seq": one sequential history against the reference model.
//
// params:
//   fix   fixture name
//   init  operations performed (each followed by quiescence) before the history proper
//   ops   the history
//   noq   bitmask: bit i set = no quiescence after ops[i] (its notifications are read together with later ones)
//   cap   Events capacity (-1 = NewWatcher)
//   cwd   "w" to run with the scratch directory itself as current directory
//   tag09 true: watch-set disagreements are also reported under C09

func init() { Families["seq"] = seqScenario }

var catProp = map[string][]string{
	"lost": {"C01"}, "phantom": {"C02"}, "zero-op": {"C02"}, "order": {"C03"}, "name": {"C08"}, "from": {"C11"},
	"watchlist": {"C04"}, "errclass": {"C04"}, "state-changed": {"C04"}, "tables": {"C12"}, "marks": {"C12"},
	"errors-chan": {"C10"}, "overflow": {"C10", "C01"}, "stuck": {"C05"}, "panic": {"C04", "C07"},
}

func pstrs(p map[string]any, k string) []string {
	v, ok := p[k]
	if !ok || v == nil {
		return nil
	}
	switch t := v.(type) {
	case []string:
		return t
	case []any:
		out := make([]string, len(t))
		for i, e := range t {
			out[i] = fmt.Sprint(e)
		}
		return out
	}
	return nil
}

// Fixtures: directory trees created before any watcher exists.
func mkFixture(name string) {
	mk := func(p string) { mustNil(os.MkdirAll(p, 0o755)) }
	file := func(p string) { mustNil(os.WriteFile(p, []byte("x"), 0o644)) }
	switch name {
	case "std":
		mk("w/d/s")
		mk("w/d2")
		mk("w/o")
		file("w/d/a")
		file("w/d/b")
		file("w/d/s/x")
		file("w/f")
		file("w/o/p")
		mustNil(os.Symlink("f", "w/lf"))
		mustNil(os.Symlink("d", "w/ld"))
	case "std4": // std plus a symlink loop
		mkFixture("std")
		mustNil(os.Symlink("loop", "w/loop"))
	case "c09":
		mk("w/p")
		file("w/p/f")
		mustNil(os.Symlink("p/f", "w/lpf"))
	case "mini":
		mk("w/d")
		file("w/d/a")
		file("w/f")
	case "empty":
	default:
		panic("unknown fixture " + name)
	}
}

func seqScenario(p map[string]any) *Scenario {
	fix, capa := pstr(p, "fix", "std"), pint(p, "cap", -1)
	initOps, ops := pstrs(p, "init"), pstrs(p, "ops")
	noq := pint(p, "noq", 0)
	tag09 := pstr(p, "tag09", "") == "true"
	sc := &Scenario{Name: fmt.Sprintf("seq/%s/%s", fix, strings.Join(append(append([]string{}, initOps...), ops...), ";")), Params: p}
	if len(sc.Name) > 150 {
		sc.Name = sc.Name[:150]
	}
	sc.Body = func(x *X) {
		mkFixture(fix)
		if pstr(p, "cwd", "") == "w" {
			mustNil(os.Chdir("w"))
			defer os.Chdir("..")
		}
		s := NewSeqState(x, capa)
		x.Vars["seq"] = s
		for _, c := range pstrs(p, "skip") {
			s.Skip[c] = true
		}
		x.Quiesce()
		for _, op := range initOps {
			s.DoOp(op)
			x.Quiesce()
			s.Checkpoint()
		}
		before := s.Canon()
		for i, op := range ops {
			// "a ;; b ;; c" is a burst: no quiescence between its parts, so the
			// notifications of all parts are still queued when the reader runs
			for _, part := range strings.Split(op, ";;") {
				s.DoOp(strings.TrimSpace(part))
			}
			if noq&(1<<i) == 0 || i == len(ops)-1 {
				x.Quiesce()
				s.Checkpoint()
			}
		}
		after := s.Canon()
		x.Vars["canon"] = after
		x.Vars["nochange"] = before == after
	}
	sc.Check = func(x *X, e *End) []Violation {
		var out []Violation
		s, _ := x.Vars["seq"].(*SeqState)
		emit := func(pr Problem) {
			props := catProp[pr.Cat]
			if tag09 && (pr.Cat == "watchlist" || pr.Cat == "errclass" || pr.Cat == "phantom" || pr.Cat == "lost") {
				props = append(append([]string{}, props...), "C09")
			}
			for _, prop := range props {
				out = append(out, Violation{Property: prop, Signature: pr.Cat + ": " + pr.Sig, Detail: pr.Detail})
			}
		}
		if s != nil {
			for _, pr := range s.Problems {
				if s.Skip[pr.Cat] {
					continue
				}
				emit(pr)
			}
		}
		if e.Failure != "" {
			emit(Problem{"panic", "panic: " + panicSite(e.Failure), e.Failure})
		} else if len(e.Pending) > 0 {
			emit(Problem{"stuck", "call never returned: " + strings.Join(e.Pending, ","), fmt.Sprint(e.Blocked)})
		}
		return out
	}
	sc.Outcome = func(x *X, e *End) string {
		c, _ := x.Vars["canon"].(string)
		return hashStr(c)
	}
	return sc
}

// panicSite extracts "message @ function" from a recorded panic.
func panicSite(f string) string {
	lines := strings.Split(f, "\n")
	msg := lines[0]
	for _, l := range lines[1:] {
		l = strings.TrimSpace(l)
		if strings.Contains(l, "fsnotify.") && !strings.Contains(l, "harness") {
			if i := strings.LastIndex(l, "("); i > 0 {
				l = l[:i]
			}
			return msg + " @ " + l[strings.LastIndex(l, "/")+1:]
		}
	}
	return msg
}
