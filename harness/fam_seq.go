package harness

import (
	"fmt"
	"os"
	"strconv"
	"strings"

	"verif/engine/vsys"
)

// Family "seq": one sequential history against the reference model.
//
// params:
//   fix   fixture name
//   init  operations performed (each followed by quiescence) before the history proper
//   ops   the history
//   noq   bitmask: bit i set = no quiescence after ops[i] (its notifications are read together with later ones)
//   cap   Events capacity (-1 = NewWatcher)
//   cwd   "w" to run with the scratch directory itself as current directory
//   tag09 true: watch-set disagreements are also reported under C09

func init() { Families["seq"] = seqScenario }

var catProp = map[string][]string{
	"lost": {"C01"}, "phantom": {"C02"}, "zero-op": {"C02"}, "order": {"C03"}, "name": {"C08", "C01", "C02"}, "from": {"C11"},
	"watchlist": {"C04"}, "errclass": {"C04"}, "state-changed": {"C04"}, "tables": {"C12"}, "marks": {"C12", "C04"}, "unwatched": {"C12", "C04", "C01"}, "subscription": {"C15"}, "livelock": {"C01", "C10", "C05"},
	"errors-chan": {"C10"}, "overflow": {"C10", "C01"}, "stuck": {"C05"}, "panic": {"C04", "C07"},
	"capacity": {"C14"}, "absorb": {"C14"}, "postclose": {"C06", "C14"}, "foreign": {"C14"},
}

func pstrs(p map[string]any, k string) []string {
	v, ok := p[k]
	if !ok || v == nil {
		return nil
	}
	switch t := v.(type) {
	case []string:
		return t
	case []any:
		out := make([]string, len(t))
		for i, e := range t {
			out[i] = fmt.Sprint(e)
		}
		return out
	}
	return nil
}

// Fixtures: directory trees created before any watcher exists.
func mkFixture(name string) {
	mk := func(p string) { mustNil(os.MkdirAll(p, 0o755)) }
	file := func(p string) { mustNil(os.WriteFile(p, []byte("x"), 0o644)) }
	switch name {
	case "std":
		wd, _ := os.Getwd()
		defer func() { mustNil(os.Symlink(wd+"/w/d", "w/lda")) }()
		mk("w/d/s")
		mk("w/d2")
		mk("w/o")
		file("w/d/a")
		file("w/d/b")
		file("w/d/s/x")
		file("w/f")
		file("w/o/p")
		mustNil(os.Symlink("f", "w/lf"))
		mustNil(os.Symlink("d", "w/ld"))
	case "std4": // std plus a symlink loop
		mkFixture("std")
		mustNil(os.Symlink("loop", "w/loop"))
	case "c09":
		mk("w/p")
		file("w/p/f")
		mustNil(os.Symlink("p/f", "w/lpf"))
	case "mini":
		mk("w/d")
		file("w/d/a")
		file("w/f")
	case "empty":
	default:
		panic("unknown fixture " + name)
	}
}

func seqScenario(p map[string]any) *Scenario {
	fix, capa := pstr(p, "fix", "std"), pint(p, "cap", -1)
	initOps, ops := pstrs(p, "init"), pstrs(p, "ops")
	noq := pint(p, "noq", 0)
	tag09 := pstr(p, "tag09", "") == "true"
	tag14 := pstr(p, "tag14", "") == "true"
	tag15 := pstr(p, "tag15", "") == "true" // watches with explicit operation sets: a record that is not turned into its operation is C15's business
	sc := &Scenario{LivelockIsVerdict: true, Name: fmt.Sprintf("seq/%s/%s", fix, strings.Join(append(append([]string{}, initOps...), ops...), ";")), Params: p}
	if len(sc.Name) > 150 {
		sc.Name = sc.Name[:150]
	}
	sc.Body = func(x *X) {
		mkFixture(fix)
		if pstr(p, "cwd", "") == "w" {
			mustNil(os.Chdir("w"))
			defer os.Chdir("..")
		}
		if pstr(p, "syncclose", "") == "true" {
			vsys.DrainCloses() // descriptor numbers must not depend on closes still in flight from earlier executions
			vsys.Get().SyncClose = true
		}
		if n := pint(p, "maxsteps", 0); n > 0 {
			x.S.MaxSteps = n
		}
		lateq := pstr(p, "late", "") == "q" // no consumer during the history, but quiescence after every step (the reader gets as far as the buffer allows)
		late := pstr(p, "late", "") == "true" || lateq
		inject := pstr(p, "inject", "") == "true"
		states := []*SeqState{NewSeqState(x, capa, inject, late)}
		x.Vars["seqs"] = &states
		for _, c := range pstrs(p, "skip") {
			states[0].Skip[c] = true
		}
		// "k:op" addresses watcher k (created on demand with "k:N [cap]"); plain ops go to watcher 0
		do := func(op string) {
			op = strings.TrimSpace(op)
			k := 0
			if i := strings.Index(op, ":"); i > 0 && i <= 2 && !strings.Contains(op[:i], " ") {
				if n, err := strconv.Atoi(op[:i]); err == nil {
					k, op = n, strings.TrimSpace(op[i+1:])
				}
			}
			if strings.HasPrefix(op, "N") && (op == "N" || op[1] == ' ') {
				c := -1
				if f := strings.Fields(op); len(f) > 1 {
					c, _ = strconv.Atoi(f[1])
				}
				for len(states) <= k {
					states = append(states, nil)
				}
				states[k] = NewSeqState(x, c, false, false)
				return
			}
			if k >= len(states) || states[k] == nil {
				return // addressed watcher does not exist: no-op
			}
			if states[k].Closed {
				// the API of a closed Watcher must be inert (C06) and must not touch anyone else (C14)
				s := states[k]
				f := strings.Fields(op)
				nCalls := len(vsys.Get().Calls)
				defer func() {
					if cs := vsys.Get().Calls[nCalls:]; len(cs) > 0 {
						s.problem("postclose", "a closed Watcher still reaches the kernel: "+cs[0].Kind, fmt.Sprintf("%s on the closed Watcher made syscalls %+v (its descriptor number may belong to another Watcher by now)", op, cs))
					}
				}()
				switch f[0] {
				case "A":
					if err := x.Add(s.W, strings.ReplaceAll(f[1], "$W", x.Root)); ErrClass(err) != "ErrClosed" {
						s.problem("postclose", "Add on a closed Watcher did not fail with ErrClosed", fmt.Sprint(err))
					}
				case "R":
					if err := x.Remove(s.W, strings.ReplaceAll(f[1], "$W", x.Root)); err != nil {
						s.problem("postclose", "Remove on a closed Watcher returned an error", fmt.Sprint(err))
					}
				case "L":
					if l := x.WatchList(s.W); l != nil {
						s.problem("postclose", "WatchList on a closed Watcher is not nil", fmt.Sprint(l))
					}
				case "C":
					x.Close(s.W)
				}
				return
			}
			states[k].DoOp(op)
		}
		checkpoint := func() {
			x.Quiesce()
			for _, s := range states {
				if s != nil {
					s.Checkpoint()
				}
			}
		}
		canon := func() string {
			var b strings.Builder
			for i, s := range states {
				if s != nil && !s.Closed {
					fmt.Fprintf(&b, "W%d[%s] ", i, s.Canon())
				} else if s != nil {
					fmt.Fprintf(&b, "W%d[closed] ", i)
				}
			}
			return b.String()
		}
		if !late {
			x.Quiesce()
		}
		for _, op := range initOps {
			do(op)
			if late {
				x.Quiesce() // no consumer yet: nothing to compare
				continue
			}
			checkpoint()
		}
		before := canon()
		for i, op := range ops {
			// "a ;; b ;; c" is a burst: no quiescence between its parts, so the
			// notifications of all parts are still queued when the reader runs
			for _, part := range strings.Split(op, ";;") {
				do(part)
			}
			if lateq {
				x.Quiesce()
				continue
			}
			if late {
				continue
			}
			if noq&(1<<i) == 0 || i == len(ops)-1 {
				checkpoint()
			}
		}
		if late {
			// the history ran with no consumer: a Watcher whose buffer can hold
			// all events must have absorbed them (reader back at the kernel
			// queue, nothing left there); then the consumer drains
			x.Quiesce()
			s := states[0]
			if n := pint(p, "expect_absorbed", -1); n >= 0 && s.Cap >= n {
				if q := vsys.Fionread(s.Fd); q > 0 {
					s.problem("absorb", "a buffered Watcher with enough capacity did not absorb the pending events without a consumer", fmt.Sprintf("cap=%d, %d bytes still in the kernel queue", s.Cap, q))
				}
			}
			s.StartConsumer()
			checkpoint()
		}
		after := canon()
		var evs []string
		for _, o := range x.Log {
			if o.W == 0 && (o.Kind == "event" || o.Kind == "error") {
				evs = append(evs, fmt.Sprintf("%s %d %q %q %s", o.Kind, o.Op, o.Name, o.From, o.Err))
			}
		}
		x.Vars["aux"] = strings.Join(evs, "\n")
		x.Vars["canon"] = after
		x.Vars["nochange"] = before == after
	}
	sc.Check = func(x *X, e *End) []Violation {
		var out []Violation
		var all []Problem
		skip := map[string]bool{}
		if sp, ok := x.Vars["seqs"].(*[]*SeqState); ok {
			for i, s := range *sp {
				if s == nil {
					continue
				}
				if i == 0 {
					skip = s.Skip
				}
				for _, pr := range s.Problems {
					if i > 0 {
						pr.Sig = fmt.Sprintf("watcher %d: %s", i, pr.Sig)
					}
					all = append(all, pr)
				}
			}
		}
		emit := func(pr Problem) {
			props := catProp[pr.Cat]
			if tag14 && (pr.Cat == "lost" || pr.Cat == "phantom" || pr.Cat == "order" || pr.Cat == "name" || pr.Cat == "from") {
				props = append(append([]string{}, props...), "C14")
			}
			if tag15 && (pr.Cat == "lost" || pr.Cat == "phantom") {
				props = append(append([]string{}, props...), "C15")
			}
			if tag09 && (pr.Cat == "watchlist" || pr.Cat == "errclass" || pr.Cat == "phantom" || pr.Cat == "lost") {
				props = append(append([]string{}, props...), "C09")
			}
			for _, prop := range props {
				out = append(out, Violation{Property: prop, Signature: pr.Cat + ": " + pr.Sig, Detail: pr.Detail})
			}
		}
		for _, pr := range all {
			if skip[pr.Cat] {
				continue
			}
			emit(pr)
		}
		if e.Livelock {
			pr := Problem{"livelock", "the Watcher never becomes quiescent again (reader spinning)", fmt.Sprintf("step limit reached; last observations: %v", tailObs(x, 6))}
			emit(pr)
			if tag14 {
				out = append(out, Violation{Property: "C14", Signature: pr.Cat + ": " + pr.Sig, Detail: pr.Detail})
			}
		} else if e.Failure != "" {
			emit(Problem{"panic", "panic: " + panicSite(e.Failure), e.Failure})
		} else if len(e.Pending) > 0 {
			emit(Problem{"stuck", "call never returned: " + strings.Join(e.Pending, ","), fmt.Sprint(e.Blocked)})
		}
		return out
	}
	sc.Outcome = func(x *X, e *End) string {
		c, _ := x.Vars["canon"].(string)
		return hashStr(c)
	}
	return sc
}

// panicSite extracts "message @ function" from a recorded panic.
func panicSite(f string) string {
	lines := strings.Split(f, "\n")
	msg := lines[0]
	for _, l := range lines[1:] {
		l = strings.TrimSpace(l)
		if strings.Contains(l, "fsnotify.") && !strings.Contains(l, "harness") {
			if i := strings.LastIndex(l, "("); i > 0 {
				l = l[:i]
			}
			return msg + " @ " + l[strings.LastIndex(l, "/")+1:]
		}
	}
	return msg
}

func tailObs(x *X, n int) []string {
	var out []string
	for i := len(x.Log) - n; i < len(x.Log); i++ {
		if i >= 0 {
			o := x.Log[i]
			out = append(out, fmt.Sprintf("%s %s %s %s", o.Kind, o.What, o.Name, o.Err))
		}
	}
	return out
}
