package harness

import (
	"fmt"
	"os"
	"sort"
	"strings"
	"time"

	"verif/engine/vsched"
)

// Engine self-test: small programs whose complete sets of behaviours are
// known, run through the same explorer, scheduler and shims as the checks.
// It answers "has this harness ever failed?" for the engine itself: the
// explorer must find the lost update and the lock-order deadlock exactly at
// the preemption bound where they first exist, must enumerate every
// interleaving exactly once when unbounded, the shims must behave like Go's
// channels, mutexes, Once, WaitGroup and (clock-free) timers, replays must be
// deterministic, and state-key pruning must not lose an outcome.
//
//	vharn selftest      (run by setup.sh; exit 0 = all as expected)

type selfShared struct {
	M, A, B vsched.Mutex
	RW      vsched.RWMutex
	O       vsched.Once
	WG      vsched.WaitGroup
	C0      chan int
	C1      chan int
	C2      chan int
	v       int
	log     []string
}

type selfCase struct {
	name  string
	body  func(x *X, st *selfShared)
	bound int
	prune bool
	want  []string // exact set of outcomes
	execs int      // exact number of executions, 0 = not checked
}

func selfOutcome(x *X, e *End) string {
	st := x.Vars["st"].(*selfShared)
	var blocked []string
	for _, b := range e.Blocked {
		blocked = append(blocked, b.Thread+":"+b.Kind)
	}
	sort.Strings(blocked)
	o := fmt.Sprintf("v=%d log=%s", st.v, strings.Join(st.log, ","))
	if len(blocked) > 0 {
		o += " blocked=" + strings.Join(blocked, ",")
	}
	if e.Failure != "" {
		o += " failure=" + strings.SplitN(e.Failure, "\n", 2)[0]
	}
	return o
}

func selfScenario(c selfCase) *Scenario {
	sc := &Scenario{Name: "self/" + c.name}
	sc.Body = func(x *X) {
		st := &selfShared{C0: make(chan int), C1: make(chan int, 1), C2: make(chan int, 1)}
		x.Vars["st"] = st
		vsched.RegisterTree(st, "S")
		x.SharedExtra = func() string { return fmt.Sprint(st.v) }
		x.KeyExtra = func() string { return fmt.Sprint(st.v, st.log) }
		c.body(x, st)
	}
	sc.Check = func(x *X, e *End) []Violation { return nil }
	sc.Outcome = selfOutcome
	return sc
}

func selfCases() []selfCase {
	lostUpdate := func(x *X, st *selfShared) {
		for _, n := range []string{"t1", "t2"} {
			vsched.GoNamed(n, func() {
				st.M.Lock()
				t := st.v
				st.M.Unlock()
				st.M.Lock()
				st.v = t + 1
				st.M.Unlock()
			})
		}
	}
	abba := func(x *X, st *selfShared) {
		vsched.GoNamed("t1", func() { st.A.Lock(); st.B.Lock(); st.B.Unlock(); st.A.Unlock() })
		vsched.GoNamed("t2", func() { st.B.Lock(); st.A.Lock(); st.A.Unlock(); st.B.Unlock() })
	}
	steps := func(threads, n int) func(x *X, st *selfShared) {
		return func(x *X, st *selfShared) {
			for t := 0; t < threads; t++ {
				name := string(rune('a' + t))
				vsched.GoNamed(name, func() {
					for i := 0; i < n; i++ {
						vsched.Step(name)
						st.log = append(st.log, name)
					}
				})
			}
		}
	}
	var orders func(counts []int, cur string, out *[]string)
	orders = func(counts []int, cur string, out *[]string) {
		done := true
		for t, c := range counts {
			if c > 0 {
				done = false
				counts[t]--
				sep := ","
				if cur == "" {
					sep = ""
				}
				orders(counts, cur+sep+string(rune('a'+t)), out)
				counts[t]++
			}
		}
		if done {
			*out = append(*out, "v=0 log="+cur)
		}
	}
	var o23, o32 []string
	orders([]int{3, 3}, "", &o23)
	orders([]int{2, 2, 2}, "", &o32)
	return []selfCase{
		{name: "lost-update/pb0", body: lostUpdate, bound: 0, want: []string{"v=2 log="}},
		{name: "lost-update/pb1", body: lostUpdate, bound: 1, want: []string{"v=1 log=", "v=2 log="}},
		{name: "lost-update/unbounded", body: lostUpdate, bound: -1, want: []string{"v=1 log=", "v=2 log="}},
		{name: "lost-update/pruned", body: lostUpdate, bound: -1, prune: true, want: []string{"v=1 log=", "v=2 log="}},
		{name: "lock-order/pb0", body: abba, bound: 0, want: []string{"v=0 log="}},
		{name: "lock-order/pb1", body: abba, bound: 1, want: []string{"v=0 log=", "v=0 log= blocked=t1:lock,t2:lock"}},
		{name: "lock-order/pruned", body: abba, bound: -1, prune: true, want: []string{"v=0 log=", "v=0 log= blocked=t1:lock,t2:lock"}},
		// every interleaving of two threads x three steps (20 orders) and of three threads x two steps (90), and each
		// schedule exactly once: a thread's start is a scheduling point too, so there are C(8,4) = 70 and
		// 9!/(3!3!3!) = 1680 schedules
		{name: "interleavings/2x3", body: steps(2, 3), bound: -1, want: o23, execs: 70},
		{name: "interleavings/3x2", body: steps(3, 2), bound: -1, want: o32, execs: 1680},
		// after the hand-over either side may run first, the value has arrived in both cases
		{name: "rendezvous", bound: -1, want: []string{"v=7 log=sent,got", "v=7 log=got,sent"}, body: func(x *X, st *selfShared) {
			vsched.GoNamed("snd", func() { vsched.Send(st.C0, 7); st.log = append(st.log, "sent") })
			vsched.GoNamed("rcv", func() { st.v = vsched.Recv(st.C0); st.log = append(st.log, "got") })
		}},
		{name: "buffer-full-blocks", bound: -1, want: []string{"v=0 log=one blocked=snd:send"}, body: func(x *X, st *selfShared) {
			vsched.GoNamed("snd", func() {
				vsched.Send(st.C1, 1)
				st.log = append(st.log, "one")
				vsched.Send(st.C1, 2)
				st.log = append(st.log, "two")
			})
		}},
		{name: "close-wakes-receiver", bound: -1, want: []string{"v=-1 log=ok=false"}, body: func(x *X, st *selfShared) {
			vsched.GoNamed("rcv", func() {
				v, ok := vsched.Recv2(st.C0)
				st.v = v - 1
				st.log = append(st.log, fmt.Sprintf("ok=%t", ok))
			})
			vsched.GoNamed("cls", func() { vsched.Close(st.C0) })
		}},
		{name: "fifo-buffer", bound: -1, want: []string{"v=12 log="}, body: func(x *X, st *selfShared) {
			c := make(chan int, 2)
			vsched.Send(c, 1)
			vsched.Send(c, 2)
			st.v = vsched.Recv(c)*10 + vsched.Recv(c)
		}},
		{name: "select-ready-arms", bound: 0, want: []string{"v=1 log=", "v=2 log="}, body: func(x *X, st *selfShared) {
			vsched.Send(st.C1, 1)
			vsched.Send(st.C2, 2)
			i, v, _ := vsched.Select(false, vsched.CaseRecv(st.C1), vsched.CaseRecv(st.C2))
			_ = i
			st.v = v.(int)
		}},
		{name: "select-default", bound: 0, want: []string{"v=-1 log="}, body: func(x *X, st *selfShared) {
			i, _, _ := vsched.Select(true, vsched.CaseRecv(st.C1), vsched.CaseSend(st.C0, 1))
			st.v = i
		}},
		{name: "send-on-closed", bound: 0, want: []string{"v=0 log= blocked=main:send failure=runtime panic: send on closed channel S.C1"}, body: func(x *X, st *selfShared) {
			vsched.Close(st.C1)
			vsched.Send(st.C1, 1)
		}},
		{name: "timer-may-win-or-lose", bound: -1, want: []string{"v=0 log=timeout", "v=5 log=value"}, body: func(x *X, st *selfShared) {
			vsched.GoNamed("snd", func() {
				switch i, _, _ := vsched.Select(true, vsched.CaseSend(st.C1, 5)); i {
				}
			})
			vsched.GoNamed("sel", func() {
				i, v, _ := vsched.Select(false, vsched.CaseRecv(vsched.After(time.Second)), vsched.CaseRecv(st.C1))
				if i == 0 {
					st.log = append(st.log, "timeout")
				} else {
					st.v = v.(int)
					st.log = append(st.log, "value")
				}
			})
		}},
		{name: "timer-alone-fires", bound: -1, want: []string{"v=0 log=timeout"}, body: func(x *X, st *selfShared) {
			vsched.Select(false, vsched.CaseRecv(vsched.After(time.Hour)), vsched.CaseRecv(st.C0))
			st.log = append(st.log, "timeout")
		}},
		{name: "once", bound: 2, want: []string{"v=1 log=1,1"}, body: func(x *X, st *selfShared) {
			for _, n := range []string{"t1", "t2"} {
				vsched.GoNamed(n, func() {
					st.O.Do(func() { vsched.Step("in-once"); st.v++ })
					st.log = append(st.log, fmt.Sprint(st.v)) // Do returns only after the one call has finished
				})
			}
		}},
		{name: "waitgroup", bound: 2, want: []string{"v=2 log=2"}, body: func(x *X, st *selfShared) {
			st.WG.Add(2)
			for _, n := range []string{"w1", "w2"} {
				vsched.GoNamed(n, func() { vsched.Step("work"); st.v++; st.WG.Done() })
			}
			vsched.GoNamed("waiter", func() { st.WG.Wait(); st.log = append(st.log, fmt.Sprint(st.v)) })
		}},
		{name: "rwmutex", bound: 2, want: []string{"v=0 log=", "v=0 log=readers-overlap"}, body: func(x *X, st *selfShared) {
			readers, writer := 0, false
			for _, n := range []string{"r1", "r2"} {
				vsched.GoNamed(n, func() {
					st.RW.RLock()
					readers++
					if writer {
						st.log = append(st.log, "READER-WITH-WRITER")
					}
					vsched.Step("reading")
					if readers == 2 && len(st.log) == 0 {
						st.log = append(st.log, "readers-overlap")
					}
					readers--
					st.RW.RUnlock()
				})
			}
			vsched.GoNamed("w", func() {
				st.RW.Lock()
				writer = true
				if readers > 0 {
					st.log = append(st.log, "WRITER-WITH-READER")
				}
				vsched.Step("writing")
				writer = false
				st.RW.Unlock()
			})
		}},
	}
}

// SelfTestMain runs the known-answer programs; prints one line per program.
func SelfTestMain() int {
	InitWorkRoot()
	defer CleanupWorkRoot()
	bad := 0
	for _, c := range selfCases() {
		sc := selfScenario(c)
		var keyFn func(*vsched.Sched, *X) string
		if c.prune {
			keyFn = func(s *vsched.Sched, x *X) string { return s.Key(x.StateKey()) }
		}
		st, _, eerr := Explore(sc, c.bound, 200000, false, nil, keyFn)
		var got []string
		for o := range st.Outcomes {
			got = append(got, o)
		}
		sort.Strings(got)
		want := append([]string{}, c.want...)
		sort.Strings(want)
		ok := eerr == "" && st.Exhaustive && strings.Join(got, "|") == strings.Join(want, "|")
		if c.execs > 0 {
			// complete and without repetition: as many executions as there are schedules
			ok = ok && st.Executions == c.execs
		}
		if c.prune {
			ok = ok && st.Pruned > 0
		}
		// determinism: the default schedule and one recorded non-default schedule, twice each
		a, b := RunOnce(sc, nil, false, nil), RunOnce(sc, nil, false, nil)
		ok = ok && a.TraceHash == b.TraceHash && a.Outcome == b.Outcome
		status := "ok"
		if !ok {
			status = "FAILED"
			bad++
		}
		fmt.Printf("selftest %-28s %-6s bound=%d executions=%d pruned=%d outcomes=%d\n", c.name, status, c.bound, st.Executions, st.Pruned, len(got))
		if !ok {
			fmt.Printf("   engine error: %q\n   got  %q\n   want %q\n", eerr, got, want)
		}
	}
	if bad > 0 {
		fmt.Fprintf(os.Stderr, "ENGINE-ERROR: %d engine self-tests failed\n", bad)
		return 2
	}
	return 0
}
