package harness

import (
	"encoding/json"
	"fmt"
	"os"
	"runtime"
	"sort"
	"time"
)

// Explicit-state search over operation sequences (E2). A state is identified
// by the operation sequence that reaches it; successors are computed by
// replaying the sequence on a fresh directory and a fresh Watcher and applying
// one more operation (kernel objects cannot be cloned). States are
// deduplicated by the canonical form of SeqState.Canon.

type BFSDef struct {
	Name     string
	Family   string         // scenario family run for every transition ("seq" if empty)
	Base     map[string]any // seq params shared by every state: fix, init, cap, tag09 ...
	Alphabet []string
	Depth    int
	Burst    int // >1: a transition may also be a burst of up to this many operations without quiescence in between
	// Second phase: from every state found at depth <= TailDepth, every burst of
	// 2..TailBurst operations is applied once and judged (successors are not expanded further).
	TailBurst int
	TailDepth int
	// Optionally shorter bursts (exactly PairDepth's states get all bursts of two) from deeper states.
	PairDepth int
	// Prop is the property the search is run for (set by the coordinator): a state whose only problems
	// belong to other properties is still expanded, so that a consequence that is this property's shows up.
	Prop string
}

func (d *BFSDef) tailMoves() []string {
	var out []string
	cur := d.Alphabet
	for n := 2; n <= d.TailBurst; n++ {
		var next []string
		for _, a := range cur {
			for _, b := range d.Alphabet {
				next = append(next, a+" ;; "+b)
			}
		}
		out = append(out, next...)
		cur = next
	}
	return out
}

// moves lists the transitions: single operations and bursts.
func (d *BFSDef) moves() []string {
	out := append([]string{}, d.Alphabet...)
	cur := d.Alphabet
	for n := 2; n <= d.Burst; n++ {
		var next []string
		for _, a := range cur {
			for _, b := range d.Alphabet {
				next = append(next, a+" ;; "+b)
			}
		}
		out = append(out, next...)
		cur = next
	}
	return out
}

type expandReq struct {
	Family   string         `json:"family"`
	Base     map[string]any `json:"base"`
	Prefix   []string       `json:"prefix"`
	Alphabet []string       `json:"alphabet"`
}

type childRes struct {
	Op         string      `json:"op"`
	Hash       string      `json:"hash"`
	Canon      string      `json:"canon,omitempty"`
	NoChange   bool        `json:"nochange"`
	Violations []Violation `json:"violations,omitempty"`
	Steps      int         `json:"steps"`
	EngineErr  string      `json:"engine_err,omitempty"`
}

func init() { JobRunners["seq-expand"] = runExpand }

// JobRunners are job families with their own worker-side logic.
var JobRunners = map[string]func(Job) JobResult{}

func seqParams(base map[string]any, ops []string) map[string]any {
	p := map[string]any{}
	for k, v := range base {
		p[k] = v
	}
	p["ops"] = ops
	return p
}

func runExpand(j Job) JobResult {
	res := JobResult{Job: j}
	var req expandReq
	b, _ := json.Marshal(j.Params)
	if err := json.Unmarshal(b, &req); err != nil {
		res.EngineErr = err.Error()
		return res
	}
	var kids []childRes
	res.Stats.Exhaustive = true
	for _, op := range req.Alphabet {
		if j.DeadlineUnix > 0 && time.Now().Unix() >= j.DeadlineUnix {
			res.Stats.Exhaustive = false
			break
		}
		ops := append(append([]string{}, req.Prefix...), op)
		mk := seqScenario
		if req.Family != "" && req.Family != "seq" {
			mk = Families[req.Family]
		}
		sc := mk(seqParams(req.Base, ops))
		r := RunOnce(sc, nil, false, nil)
		c := childRes{Op: op, Steps: r.Steps, EngineErr: r.EngineErr}
		if r.EngineErr != "" {
			kids = append(kids, c)
			continue
		}
		res.Stats.Executions++
		res.Stats.Steps += r.Steps
		c.Hash = r.Outcome
		// nochange is recorded by the scenario body
		if len(r.Violations) > 0 {
			// believe a violation only if it reproduces
			for i := 0; i < 2; i++ {
				if !sameProps(r.Violations, RunOnce(sc, nil, false, nil).Violations) {
					for i := range r.Violations {
						r.Violations[i].Fresh = true
					}
					break
				}
			}
			c.Violations = r.Violations
		}
		kids = append(kids, c)
	}
	res.Extra, _ = json.Marshal(kids)
	return res
}

type BFSStats struct {
	States                         int
	Transitions                    int
	Steps                          int
	Depth                          int
	FixedPoint                     bool
	Exhaustive                     bool
	PerDepth                       []int
	Violations                     []Violation
	EngineErrs                     []string
	Samples                        []any
	TailTransitions, TailNewStates int
}

// RunBFS explores the state graph breadth-first up to the depth bound or the deadline.
func RunBFS(def *BFSDef, deadline time.Time) *BFSStats {
	st := &BFSStats{Exhaustive: true}
	seen := map[string]bool{}
	// root
	rootSc := seqScenario(seqParams(def.Base, nil))
	_ = rootSc
	frontier := [][]string{{}}
	type stateAt struct {
		seq   []string
		depth int
	}
	all := []stateAt{{nil, 0}}
	// the root's own hash comes back as the child of a "nop"
	rootJob := Job{Family: "seq-expand", Params: map[string]any{"family": def.Family, "base": def.Base, "prefix": []string{}, "alphabet": []string{"nop"}}}
	rr, err := runJobs([]Job{rootJob}, 1)
	if err != "" || len(rr) != 1 || rr[0].EngineErr != "" {
		st.EngineErrs = append(st.EngineErrs, "root: "+err+fmt.Sprint(rr))
		return st
	}
	var rk []childRes
	json.Unmarshal(rr[0].Extra, &rk)
	if len(rk) != 1 || rk[0].EngineErr != "" {
		st.EngineErrs = append(st.EngineErrs, "root state failed: "+fmt.Sprint(rk))
		return st
	}
	seen[rk[0].Hash] = true
	st.States = 1
	for _, v := range rk[0].Violations {
		st.Violations = append(st.Violations, v)
	}
	sigSeen := map[string]bool{}
	moves := def.moves()
	for d := 1; d <= def.Depth; d++ {
		if len(frontier) == 0 {
			st.FixedPoint = true
			break
		}
		if time.Now().After(deadline) {
			st.Exhaustive = false
			break
		}
		var jobs []Job
		for i, pre := range frontier {
			jobs = append(jobs, Job{ID: i, Family: "seq-expand", DeadlineUnix: deadline.Unix(),
				Params: map[string]any{"family": def.Family, "base": def.Base, "prefix": pre, "alphabet": moves}})
		}
		results, jerr := runJobs(jobs, runtime.NumCPU())
		if jerr != "" {
			st.EngineErrs = append(st.EngineErrs, jerr)
			return st
		}
		var next [][]string
		newStates := 0
		levelDone := true
		for _, r := range results {
			if r.EngineErr != "" {
				st.EngineErrs = append(st.EngineErrs, r.EngineErr)
				continue
			}
			if !r.Stats.Exhaustive {
				levelDone = false
			}
			var kids []childRes
			json.Unmarshal(r.Extra, &kids)
			pre := frontier[r.Job.ID]
			for _, k := range kids {
				if k.EngineErr != "" {
					st.EngineErrs = append(st.EngineErrs, k.EngineErr)
					continue
				}
				st.Transitions++
				st.Steps += k.Steps
				seq := append(append([]string{}, pre...), k.Op)
				if len(k.Violations) > 0 {
					for _, v := range k.Violations {
						if !sigSeen[v.Property+v.Signature] { // BFS order: the first is a shortest history
							sigSeen[v.Property+v.Signature] = true
							st.Violations = append(st.Violations, v)
						}
					}
					own := def.Prop == ""
					for _, v := range k.Violations {
						own = own || v.Property == def.Prop
					}
					if own {
						continue // do not expand states reached through a violation of the property itself
					}
				}
				if !seen[k.Hash] {
					seen[k.Hash] = true
					newStates++
					next = append(next, seq)
					all = append(all, stateAt{seq, d})
					if len(st.Samples) < 5 && (newStates%97 == 1) {
						st.Samples = append(st.Samples, map[string]any{"history": seq, "state_hash": k.Hash})
					}
				}
			}
		}
		st.States += newStates
		if !levelDone {
			st.Exhaustive = false // the deadline cut this level: it does not count as completed
			break
		}
		st.PerDepth = append(st.PerDepth, newStates)
		st.Depth = d
		sort.Slice(next, func(i, j int) bool { return fmt.Sprint(next[i]) < fmt.Sprint(next[j]) })
		frontier = next
		if os.Getenv("VERIF_VERBOSE") != "" {
			fmt.Fprintf(os.Stderr, "bfs %s depth %d: +%d states (total %d), %d transitions\n", def.Name, d, newStates, st.States, st.Transitions)
		}
		if newStates == 0 {
			st.FixedPoint = true
			break
		}
	}
	// second phase: bursts from every state found up to TailDepth
	if def.TailBurst >= 2 && len(st.EngineErrs) == 0 {
		tm := def.tailMoves()
		var jobs []Job
		var pairs []string
		for _, a := range def.Alphabet {
			for _, b := range def.Alphabet {
				pairs = append(pairs, a+" ;; "+b)
			}
		}
		for _, sa := range all {
			tm := tm
			if sa.depth > def.TailDepth {
				if sa.depth > def.PairDepth {
					continue
				}
				tm = pairs
			}
			// split the burst list so that jobs stay small
			for off := 0; off < len(tm); off += 64 {
				end := off + 64
				if end > len(tm) {
					end = len(tm)
				}
				jobs = append(jobs, Job{ID: len(jobs), Family: "seq-expand", DeadlineUnix: deadline.Unix(),
					Params: map[string]any{"family": def.Family, "base": def.Base, "prefix": sa.seq, "alphabet": tm[off:end]}})
			}
		}
		results, jerr := runJobs(jobs, runtime.NumCPU())
		if jerr != "" {
			st.EngineErrs = append(st.EngineErrs, jerr)
			return st
		}
		for _, r := range results {
			if r.EngineErr != "" {
				st.EngineErrs = append(st.EngineErrs, r.EngineErr)
				continue
			}
			if !r.Stats.Exhaustive {
				st.Exhaustive = false
			}
			var kids []childRes
			json.Unmarshal(r.Extra, &kids)
			for _, k := range kids {
				if k.EngineErr != "" {
					st.EngineErrs = append(st.EngineErrs, k.EngineErr)
					continue
				}
				st.Transitions++
				st.TailTransitions++
				st.Steps += k.Steps
				if !seen[k.Hash] && len(k.Violations) == 0 {
					seen[k.Hash] = true
					st.States++
					st.TailNewStates++
				}
				for _, v := range k.Violations {
					if !sigSeen[v.Property+v.Signature] {
						sigSeen[v.Property+v.Signature] = true
						st.Violations = append(st.Violations, v)
					}
				}
			}
		}
	}
	return st
}
