package harness

import (
	"encoding/json"
	"fmt"
	"strings"
	"time"
)

// ---- job runner: a batch of complete sequential histories ----

type batchReq struct {
	Base      map[string]any   `json:"base"`
	Histories [][]string       `json:"histories"`
	Variants  []map[string]any `json:"variants,omitempty"` // optional per-history parameter overrides (same length as Histories)
	Family    string           `json:"family,omitempty"`   // scenario family ("seq" if empty)
	Group     int              `json:"group,omitempty"`    // >1: every run of this many consecutive entries must deliver identical event sequences
}

func init() { JobRunners["seq-batch"] = runBatch }

func runBatch(j Job) JobResult {
	res := JobResult{Job: j}
	var req batchReq
	b, _ := json.Marshal(j.Params)
	if err := json.Unmarshal(b, &req); err != nil {
		res.EngineErr = err.Error()
		return res
	}
	res.Stats.Exhaustive = true
	res.Stats.Outcomes = map[string]int{}
	groupFirst := ""
	for i, h := range req.Histories {
		if j.DeadlineUnix > 0 && time.Now().Unix() >= j.DeadlineUnix {
			res.Stats.Exhaustive = false
			break
		}
		p := seqParams(req.Base, h)
		if i < len(req.Variants) {
			for k, v := range req.Variants[i] {
				p[k] = v
			}
		}
		mk := seqScenario
		if req.Family != "" && req.Family != "seq" {
			mk = Families[req.Family]
		}
		sc := mk(p)
		r := RunOnce(sc, nil, false, nil)
		if r.EngineErr != "" {
			res.EngineErr = r.EngineErr + " (" + sc.Name + ")"
			return res
		}
		res.Stats.Executions++
		res.Stats.Steps += r.Steps
		res.Stats.Outcomes[r.Outcome]++
		if req.Group > 1 {
			if i%req.Group == 0 {
				groupFirst = r.Aux
			} else if r.Aux != groupFirst {
				v := Violation{Property: "C14", Scenario: sc.Name, Params: sc.Params, Signature: "differential: the delivered event sequence depends on the configuration",
					Detail: fmt.Sprintf("history %v\nreference configuration delivered:\n%s\nconfiguration %v delivered:\n%s", h, groupFirst, req.Variants[i], r.Aux)}
				res.Violations = append(res.Violations, v)
			}
		}
		if len(r.Violations) > 0 {
			for k := 0; k < 2; k++ {
				if !sameProps(r.Violations, RunOnce(sc, nil, false, nil).Violations) {
					for i := range r.Violations {
						r.Violations[i].Fresh = true
					}
					break
				}
			}
			res.Violations = append(res.Violations, r.Violations...)
		}
	}
	return res
}

func chunk(base map[string]any, hs [][]string, vars []map[string]any, n int) []Job {
	var jobs []Job
	for off := 0; off < len(hs); off += n {
		end := off + n
		if end > len(hs) {
			end = len(hs)
		}
		p := map[string]any{"base": base, "histories": hs[off:end]}
		if vars != nil {
			p["variants"] = vars[off:end]
		}
		jobs = append(jobs, Job{Family: "seq-batch", Params: p})
	}
	return jobs
}

// ---- shared search: filesystem histories on a watched directory and a watched file ----

func bfsEvents(tier string) *BFSDef {
	al := []string{
		"touch w/d/n", "write w/d/a", "trunc w/d/a", "chmod w/d/a", "rm w/d/a", "mkdir w/d/m", "rmdir w/d/m",
		"mv w/d/a w/d/c", "mv w/o/p w/d/p", "mv w/d/b w/o/b", "mv w/d/a w/d/b", "ln w/d/a w/d/h", "sym a w/d/l",
		"mv w/d/s w/o/s", "write w/o/s/x",
		"open w/d/a", "closefd w/d/a", "rmr w/d/s", "touch w/d/s/y", "write w/d/s/x",
		"write w/f", "chmod w/f", "rm w/f", "touch w/f", "mv w/f w/g",
		"A w/d", "R w/d", "A w/f", "R w/f", "A w/d/s", "R w/d/s", "A w/d/a", "R w/d/a",
	}
	d, td, pd := 2, 0, 2
	if tier == "thorough" {
		d, td, pd = 4, 2, 3
	}
	return &BFSDef{Name: "events", Base: map[string]any{"fix": "std", "init": []string{"A w/d", "A w/f"}}, Alphabet: al, Depth: d, TailBurst: 3, TailDepth: td, PairDepth: pd}
}

// nameShapes: entry names whose byte lengths make the kernel's 16-byte padding take every value.
func nameShapes(tier string) []string {
	lens := []int{1, 15, 16, 17, 31, 32, 33, 47, 48, 49, 63, 64, 65, 127, 128, 129, 254, 255}
	var out []string
	for _, n := range lens {
		out = append(out, strings.Repeat("x", n-1)+"y")
	}
	out = append(out, "sp%20ace", ".dot", "-dash", "é", "日本", "😀", "ü"+strings.Repeat("z", 14), "日"+strings.Repeat("z", 13), strings.Repeat("é", 8))
	return out
}

func jobsNames(tier string, spellings []string, cwd string) []Job {
	names := nameShapes(tier)
	var hs [][]string
	var vars []map[string]any
	for _, sp := range spellings {
		v := map[string]any{"init": []string{"A " + sp}}
		add := func(h []string) {
			hs = append(hs, h)
			vars = append(vars, v)
		}
		real := "$W/d/"
		for _, a := range names {
			add([]string{"touch " + real + a})
			for _, b := range names {
				if a == b {
					continue
				}
				add([]string{"touch " + real + a + " ;; touch " + real + b})
			}
		}
		if tier == "thorough" || len(spellings) == 1 {
			// every ordered triple: each padded length at every position of a three-record batch
			sub := names
			if tier != "thorough" {
				sub = names[:18]
			}
			for _, a := range sub {
				for _, b := range sub {
					for _, c := range sub {
						if a == b || b == c || a == c {
							continue
						}
						add([]string{"touch " + real + a + " ;; touch " + real + b + " ;; touch " + real + c})
					}
				}
			}
		}
	}
	base := map[string]any{"fix": "std", "cwd": cwd}
	return chunk(base, hs, vars, 200)
}

func jobsBufferEdges(tier string) []Job {
	var hs [][]string
	for _, n := range []int{4095, 4096, 4097, 8192, 8193} {
		hs = append(hs, []string{fmt.Sprintf("fileburst w/f %d", n)})
	}
	for _, n := range []int{2047, 2048, 2049} {
		hs = append(hs, []string{fmt.Sprintf("dirburst w/d %d", n)})
	}
	// mixed: nameless records shift the named ones by 16 bytes
	hs = append(hs, []string{"fileburst w/f 1 ;; dirburst w/d 2047 ;; fileburst w/f 3", "touch w/d/after"})
	hs = append(hs, []string{"fileburst w/f 3 ;; dirburst w/d 2046 ;; fileburst w/f 2", "touch w/d/after"})
	base := map[string]any{"fix": "std", "init": []string{"A w/d", "A w/f"}, "maxsteps": 2000000}
	return chunk(base, hs, nil, 1)
}

func jobsOverflow(tier string) []Job {
	// injected: the overflow marker at every position of a short batch of genuine records (wd 1 = w/d)
	var hs [][]string
	recs := []string{"1:100:0:n1", "1:2:0:a", "1:4:0:b", "1:200:0:n1"}
	for pos := 0; pos <= len(recs); pos++ {
		var r []string
		r = append(r, recs[:pos]...)
		r = append(r, "-1:4000:0:")
		r = append(r, recs[pos:]...)
		// after the overflow the watcher must go on: more records, and Add/Remove still work
		hs = append(hs, []string{"inj " + strings.Join(r, ","), "inj 1:100:0:later", "A w/f", "R w/f", "L"})
		hs = append(hs, []string{"inj " + strings.Join(r, ",") + " ;; inj 1:100:0:later", "A w/d2", "R w/d2"})
	}
	// two markers in one batch, marker alone, marker first in a later batch
	hs = append(hs, []string{"inj -1:4000:0:,-1:4000:0:,1:100:0:x", "inj 1:100:0:y"})
	hs = append(hs, []string{"inj -1:4000:0:", "inj 1:100:0:y"})
	jobs := chunk(map[string]any{"fix": "std", "init": []string{"A w/d"}, "inject": "true"}, hs, nil, 4)
	// the other housekeeping records: an unmount of the filesystem under a watch (IN_UNMOUNT, then IN_IGNORED as the
	// kernel sends them) in the middle of a batch, alone, and with the flag combined with IN_ISDIR; wd 2 = w/d2
	var um [][]string
	for _, u := range []string{"2:2000:0:,2:8000:0:", "2:2000:0:", "2:40002000:0:,2:8000:0:", "2:a000:0:"} {
		um = append(um, []string{"inj 1:100:0:n1," + u + ",1:100:0:n2", "inj 1:100:0:later", "L"})
		um = append(um, []string{"inj " + u, "inj 1:2:0:a"})
	}
	jobs = append(jobs, chunk(map[string]any{"fix": "std", "init": []string{"A w/d", "A w/d2"}, "inject": "true", "skip": []string{"marks", "tables"}}, um, nil, 4)...)
	if tier == "thorough" {
		// one real overflow: more notifications than fs.inotify.max_queued_events, none read meanwhile
		real := [][]string{{"abburst w/d/a w/d/b 17000", "touch w/d/after", "A w/f", "R w/f"}}
		jobs = append(jobs, chunk(map[string]any{"fix": "std", "init": []string{"A w/d"}, "maxsteps": 4000000}, real, nil, 1)...)
	}
	return jobs
}

const eventsRule = "E2: (a) breadth-first search over filesystem/API histories on a watched directory, a watched file and unwatched neighbours, followed from every shallow state by every burst of up to three operations whose notifications are read together (batchings); (b) every ordered batch of up to two (thorough/single spelling: three) creations over the name-shape list; (c) bursts that fill the 64 KiB read buffer exactly, by one record less and by one more; (d) an injected IN_Q_OVERFLOW at every position of a batch. Each transition runs the real code against the real kernel to quiescence; the raw bytes of every kernel read are parsed independently and the reference model says which records must, may or must not surface, with which name, operation and old name, in which order"

// jobsMidBatch: an API call made while the reader is parked in the middle of a
// batch (no consumer during the history; the reader gets as far as the Events
// buffer allows), for every (filesystem burst, API call) pair.
func jobsMidBatch(tier string) []Job {
	fsops := []string{"touch w/d/n ;; write w/d/a", "mv w/d/a w/d/c", "rm w/d/a ;; touch w/d/a", "write w/f ;; chmod w/f", "mv w/f w/g ;; touch w/f",
		"mkdir w/d/m ;; rmdir w/d/m", "mv w/d/b w/o/b ;; mv w/o/p w/d/p", "rm w/f"}
	apis := []string{"R w/d", "R w/f", "A w/d", "A w/f", "A w/o", "R w/o", "A w/d/s", "L"}
	var hs [][]string
	var vars []map[string]any
	for _, f := range fsops {
		for _, a := range apis {
			for _, c := range []int{0, 1, 2} {
				hs = append(hs, []string{f, a, "touch w/d/later ;; write w/d/later"})
				vars = append(vars, map[string]any{"cap": c, "late": "q"})
				if tier == "thorough" {
					for _, a2 := range apis {
						hs = append(hs, []string{f, a, a2, "touch w/d/later"})
						vars = append(vars, map[string]any{"cap": c, "late": "q"})
					}
				}
			}
		}
	}
	return chunk(map[string]any{"fix": "std", "init": []string{"A w/d", "A w/f"}}, hs, vars, 12)
}

// jobsDirected: histories that are too deep or too particular for the searches, each named by a delivered change.
func jobsDirected(tier string) []Job {
	var hs [][]string
	// a listed name comes to name a new inode while the old inode (and so its kernel watch) stays alive - an open
	// descriptor, a spare hard link, an atomic rename onto it - then Add again and changes to the new file
	for _, keep := range [][]string{{"open w/f", "rm w/f", "touch w/f"}, {"ln w/f w/h", "rm w/f", "touch w/f"}, {"ln w/f w/h", "touch w/g", "mv w/g w/f"},
		{"open w/f", "touch w/g ;; mv w/g w/f"}, {"ln w/f w/h ;; rm w/f ;; touch w/f"}} {
		for _, tail := range [][]string{{"A w/f", "write w/f", "chmod w/f ;; trunc w/f", "rm w/f"}, {"A w/f ;; write w/f", "mv w/f w/g2"}} {
			hs = append(hs, append(append([]string{}, keep...), tail...))
		}
	}
	// a watched file below a watched directory but inside an unwatched sub-directory: nobody else reports its removal
	hs = append(hs, []string{"A w/d/s/x", "write w/d/s/x", "rm w/d/s/x"}, []string{"A w/d/s/x", "write w/d/s/x ;; rm w/d/s/x", "touch w/d/s/x"}, []string{"A w/d/s/x", "mv w/d/s/x w/d/s/y"})
	// two records of one batch that translate to the same operation on the same name (a create, then a move in onto
	// it): both are notifications, both are reported
	hs = append(hs, []string{"touch w/d/n ;; mv w/o/p w/d/n"}, []string{"touch w/d/n ;; mv w/o/p w/d/n ;; rm w/d/n"}, []string{"touch w/d/n", "mv w/o/p w/d/n"}, []string{"mkdir w/d/m ;; rmdir w/d/m ;; mkdir w/d/m"})
	// a watched sub-directory is renamed away, something is created in it while nothing lists it, then it is added
	// under its new name in the same breath: what happened in between was not watched
	hs = append(hs, []string{"A w/d/s", "mv w/d/s w/o/s", "touch w/o/s/y ;; A w/o/s", "touch w/o/s/z"}, []string{"A w/d/s", "mv w/d/s w/o/s", "touch w/o/s/y ;; A w/o/s ;; touch w/o/s/z"},
		[]string{"mv w/f w/g", "write w/g ;; A w/g", "write w/g"})
	// a rename onto an entry that is watched in its own right: Rename and Create stay adjacent
	hs = append(hs, []string{"A w/d/a", "mv w/d/b w/d/a"}, []string{"A w/d/a", "mv w/d/b w/d/a ;; touch w/d/b"}, []string{"A w/d/a", "mv w/o/p w/d/a", "write w/d/a"})
	for _, keep := range [][]string{{"open w/d/a", "rm w/d/a", "touch w/d/a"}, {"ln w/d/a w/h", "rm w/d/a", "touch w/d/a"}, {"ln w/d/a w/h", "mv w/d/b w/d/a"}} {
		hs = append(hs, append(append([]string{"A w/d/a"}, keep...), "A w/d/a", "write w/d/a", "chmod w/d/a", "rm w/d/a"))
	}
	return chunk(map[string]any{"fix": "std", "init": []string{"A w/d", "A w/f"}}, hs, nil, 4)
}

// jobsRotation: the log-rotation family of histories on a watched file and on
// an entry of a watched directory (delete or rename while a descriptor is held
// open, recreate, re-add, close the old descriptor, use the new file), too long
// for the BFS depth, in several batchings.
func jobsRotation(tier string) []Job {
	var hs [][]string
	for _, f := range []string{"w/f", "w/d/a"} {
		steps := []string{"open " + f, "rm " + f, "touch " + f, "A " + f, "closefd " + f, "write " + f, "chmod " + f, "rm " + f}
		hs = append(hs, steps)
		hs = append(hs, []string{steps[0], steps[1] + " ;; " + steps[2], steps[3], steps[4] + " ;; " + steps[5], steps[6], steps[7]})
		hs = append(hs, []string{steps[0] + " ;; " + steps[1] + " ;; " + steps[2], steps[3] + " ;; " + steps[4], steps[5] + " ;; " + steps[6] + " ;; " + steps[7]})
		mv := []string{"open " + f, "mv " + f + " w/old", "touch " + f, "A " + f, "write w/old", "closefd " + f, "write " + f, "rm w/old", "write " + f}
		hs = append(hs, mv)
		hs = append(hs, []string{mv[0], mv[1] + " ;; " + mv[2] + " ;; " + mv[3], mv[4] + " ;; " + mv[5], mv[6], mv[7] + " ;; " + mv[8]})
		hs = append(hs, []string{"ln " + f + " w/hl", "rm " + f, "touch " + f, "A " + f, "write " + f, "write w/hl", "rm w/hl", "write " + f})
		hs = append(hs, []string{"R " + f, "A " + f, "write " + f, "R " + f + " ;; A " + f, "write " + f, "R " + f + " ;; A " + f + " ;; write " + f})
	}
	return chunk(map[string]any{"fix": "std", "init": []string{"A w/d", "A w/f"}}, hs, nil, 2)
}

func eventsJobs(tier string) []Job {
	var jobs []Job
	jobs = append(jobs, jobsRotation(tier)...)
	jobs = append(jobs, jobsDirected(tier)...)
	jobs = append(jobs, jobsMidBatch(tier)...)
	jobs = append(jobs, jobsNames(tier, []string{"w/d"}, "")...)
	jobs = append(jobs, jobsBufferEdges(tier)...)
	jobs = append(jobs, jobsOverflow(tier)...)
	return jobs
}

func init() {
	ev := func(prop, oracle string, extra func(string) []Job) *CheckDef {
		return &CheckDef{Prop: prop, Rule: eventsRule,
			Technique: "explicit-state model checking of the real code (BFS over histories x batchings) plus exhaustive enumeration of name-shape batches and buffer-boundary bursts; oracle = " + oracle,
			BFS: func(tier string) []*BFSDef {
				if prop == "C02" {
					return []*BFSDef{bfsEvents(tier), bfsRec(tier)}
				}
				return []*BFSDef{bfsEvents(tier)}
			},
			Jobs:   func(tier string) []Job { return append(eventsJobs(tier), extra(tier)...) },
			Assume: []string{"the kernel's record stream, captured at the read seam, is ground truth", "histories are sequential; reader/consumer interleavings are covered by C03/C05/C07's schedule exploration"}}
	}
	Checks["C01"] = ev("C01", "every must-deliver kernel record appears on Events exactly once with the documented operation and name; a shortfall is only allowed behind a kernel overflow marker, which must yield ErrEventOverflow", func(string) []Job { return nil })
	Checks["C02"] = ev("C02", "every received event is backed by a kernel record of a currently listed watch (or a direct child), has a non-empty Op, and none stems from housekeeping records or from changes after Remove returned", func(string) []Job { return nil })
	Checks["C03"] = ev("C03", "the received sequence equals the translated kernel sequence in order (optional records may only be dropped, never moved); plus E1: every interleaving up to the preemption bound of reader, consumer and a short history for Events capacities default, 1, 2, 64", orderJobs)
}

// ---------------- C08: names follow the caller's spelling ----------------

func c08Jobs(tier string) []Job {
	// run with the scratch directory itself as cwd so that relative spellings are meaningful
	sp := []string{"d", "./d", "d//", "o/../d", "d/", "$W/d", "ld", "lda", "d/.", "./ld/"}
	jobs := jobsNames(tier, sp, "w")
	// self events of a watched file under several spellings, incl. through a symlink
	var hs [][]string
	var vars []map[string]any
	for _, s := range []string{"f", "./f", "o/../f", "$W/f", "lf", "./lf", "d/../f"} {
		hs = append(hs, []string{"write $W/f", "chmod $W/f ;; write $W/f", "mv $W/f $W/g"})
		vars = append(vars, map[string]any{"init": []string{"A " + s}})
	}
	// first added name wins
	for _, init := range [][]string{{"A lf", "A f"}, {"A f", "A lf"}, {"ln f h", "A h", "A f"}, {"ln f h", "A f", "A h"},
		{"A ld", "A d"}, {"A d", "A ld"}, {"A lda", "A $W/d", "A d"}, {"A d/", "A ./d", "A ld"}} {
		hs = append(hs, []string{"write $W/f", "touch $W/d/new ;; write $W/d/a", "rm $W/d/new"})
		vars = append(vars, map[string]any{"init": init})
	}
	// the Add argument cleans to "." : entries are spelled "./entry" (argument, separator, entry)
	for _, sp := range []string{".", "./", "d/..", "./."} {
		hs = append(hs, []string{"touch $W/new1 ;; write $W/f", "mv $W/new1 $W/new2", "rm $W/new2"})
		vars = append(vars, map[string]any{"init": []string{"A " + sp}})
	}
	// a listed link is retargeted to a directory/file that is already listed under its own name: that first name stays
	for _, init := range [][]string{{"A d2", "A ld", "resym d2 ld", "A ld"}, {"A ld", "A d2", "resym d2 ld", "A ld"},
		{"A d/a", "A lf", "resym d/a lf", "A lf"}, {"A lf", "resym d/a lf", "A lf"}, {"A ld", "resym d2 ld", "A ld"}} {
		hs = append(hs, []string{"touch $W/d2/new ;; write $W/d/a", "write $W/f", "touch $W/d/new2"})
		vars = append(vars, map[string]any{"init": init})
	}
	jobs = append(jobs, chunk(map[string]any{"fix": "std", "cwd": "w"}, hs, vars, 4)...)
	// recursive watches: the same entries reported before and after their directory (and its parent) was renamed -
	// whatever a Watcher remembers about a name from the last event must not outlive the rename
	for _, h := range [][]string{
		{"write w/r/sub/f", "mv w/r/sub w/r/moved", "write w/r/moved/f", "write w/r/moved/d/f", "mv w/r/moved w/r/sub", "write w/r/sub/f", "write w/r/sub/d/f"},
		{"write w/r/sub/d/f", "mv w/r/sub w/r/moved", "write w/r/moved/d/f", "touch w/r/moved/d/t", "mv w/r/moved/d w/r/moved/e", "write w/r/moved/e/f", "rm w/r/moved/e/t"},
		{"write w/r/dir1/f", "write w/r/dir10/f", "mv w/r/dir1 w/r/dirA", "write w/r/dirA/f", "write w/r/dir10/f"},
	} {
		jobs = append(jobs, Job{Family: "seq-batch", Params: map[string]any{"family": "rec", "base": map[string]any{"init": []string{"RA w/r", "RA w/r2"}}, "histories": [][]string{h}}})
	}
	return jobs
}

// ---------------- C11: rename correlation ----------------

func bfsMoves(tier string) *BFSDef {
	al := []string{"mv w/d/a w/d/c", "mv w/d/c w/d/a", "mv w/d/a w/d2/a", "mv w/d2/a w/d/a", "mv w/o/p w/d/p", "mv w/d/p w/o/p",
		"mv w/d/b w/o/b", "mv w/o/b w/d2/b", "mv w/d/a w/d/b", "touch w/d/n", "rm w/d/n", "ln w/d/a w/d/h", "rm w/d/h", "mv w/d2/b w/d2/a",
		// an individually watched file is moved (IN_MOVE_SELF, cookie 0) and comes back
		"mv w/f w/g", "mv w/g w/f", "A w/f", "touch w/d2/m"}
	d, td, pd := 3, 1, 2
	if tier == "thorough" {
		d, td, pd = 5, 3, 0
	}
	return &BFSDef{Name: "moves", Base: map[string]any{"fix": "std", "init": []string{"A w/d", "A w/d2", "A w/f"}}, Alphabet: al, Depth: d, TailBurst: 3, TailDepth: td, PairDepth: pd}
}

// interleavings of k (FROM,TO) pairs that keep each FROM before its TO
func interleavings(k int) [][]int { // sequence of 2k slots: value i>0 = FROM of move i, -i = TO of move i
	var out [][]int
	var rec func(cur []int, from, to []bool)
	rec = func(cur []int, from, to []bool) {
		if len(cur) == 2*k {
			out = append(out, append([]int{}, cur...))
			return
		}
		for i := 0; i < k; i++ {
			if !from[i] {
				from[i] = true
				rec(append(cur, i+1), from, to)
				from[i] = false
			} else if !to[i] {
				to[i] = true
				rec(append(cur, -(i+1)), from, to)
				to[i] = false
			}
		}
	}
	rec(nil, make([]bool, k), make([]bool, k))
	return out
}

func c11Jobs(tier string) []Job {
	var hs [][]string
	// chains that wrap the ten-slot ring: each move separately, and in bursts of three
	for _, n := range []int{9, 10, 11, 12, 21, 25} {
		var one, burst []string
		var cur []string
		for i := 0; i < n; i++ {
			a, b := "w/d/a", "w/d/c"
			if i%2 == 1 {
				a, b = b, a
			}
			one = append(one, "mv "+a+" "+b)
			cur = append(cur, "mv "+a+" "+b)
			if len(cur) == 3 || i == n-1 {
				burst = append(burst, strings.Join(cur, " ;; "))
				cur = nil
			}
		}
		hs = append(hs, one, burst)
	}
	// k unmatched moves out (cookies nobody claims), then a move in / a create / a hard link / a matched move
	for k := 0; k <= 12; k++ {
		var pre []string
		for i := 0; i < k; i++ {
			pre = append(pre, fmt.Sprintf("touch w/d/t%d ;; mv w/d/t%d w/o/t%d", i, i, i))
		}
		for _, last := range []string{"mv w/o/p w/d/p", "touch w/d/z", "ln w/d/a w/d/h", "mv w/d/a w/d2/a", "mv w/d/a w/d/c"} {
			hs = append(hs, append(append([]string{}, pre...), last))
		}
	}
	jobs := chunk(map[string]any{"fix": "std", "init": []string{"A w/d", "A w/d2"}}, hs, nil, 6)
	// an API call lands between the two halves of one move: no consumer while the history runs, the
	// reader parks on the Rename (capacity 0) or on the Create (capacity 1) and the call happens then
	var lq [][]string
	var lqv []map[string]any
	for _, mv := range []string{"mv w/d/a w/d2/a", "mv w/d/b w/d2/b ;; mv w/d2/b w/d/b", "mv w/d/a w/d/c"} {
		for _, api := range []string{"R w/d", "R w/d2", "R w/o", "A w/o", "A w/d", "L", "R w/f", "A w/f"} {
			for _, c := range []int{0, 1, 2} {
				lq = append(lq, []string{mv, api, "touch w/d2/later"})
				lqv = append(lqv, map[string]any{"cap": c, "late": "q"})
			}
		}
	}
	// time passes between the two halves of a move (the reader is parked on the Rename, nobody receives for a while),
	// and between moves: correlation does not depend on the clock
	for _, secs := range []string{"2", "90", "100000"} {
		for _, c := range []int{0, 1} {
			lq = append(lq, []string{"mv w/d/a w/d2/a", "tick " + secs, "touch w/d2/later"}, []string{"mv w/d/a w/d/c ;; tick " + secs + " ;; mv w/d/b w/d2/b", "tick " + secs})
			lqv = append(lqv, map[string]any{"cap": c, "late": "q"}, map[string]any{"cap": c, "late": "q"})
		}
	}
	jobs = append(jobs, chunk(map[string]any{"fix": "std", "init": []string{"A w/d", "A w/d2", "A w/f"}}, lq, lqv, 8)...)
	// interleaved halves of simultaneous moves, injected for really registered wds (1 = w/d, 2 = w/d2)
	var ih [][]string
	ks := []int{2, 3}
	for _, k := range ks {
		for _, il := range interleavings(k) {
			var recs []string
			for _, v := range il {
				if v > 0 {
					recs = append(recs, fmt.Sprintf("1:40:%d:s%d", 100+v, v))
				} else {
					recs = append(recs, fmt.Sprintf("2:80:%d:t%d", 100-v, -v))
				}
			}
			ih = append(ih, []string{"inj " + strings.Join(recs, ",")})
			if tier == "thorough" || k == 2 {
				// and split into two reads at every cut
				for cut := 1; cut < len(recs); cut++ {
					ih = append(ih, []string{"inj " + strings.Join(recs[:cut], ","), "inj " + strings.Join(recs[cut:], ",")})
				}
			}
		}
	}
	// a move-in (fresh cookie) and a plain create after stale cookies, and cookie 0
	ih = append(ih, []string{"inj 1:40:7:gone", "inj 2:80:8:in,1:100:0:plain", "inj 1:80:0:zero"})
	// cookies are compared as the 32-bit values they are: an unmatched move out with cookie c, then a move in whose
	// cookie differs from c in exactly one bit (every bit position), must not be correlated
	for bit := 0; bit < 32; bit++ {
		c := uint32(0x2a5a5a5b)
		ih = append(ih, []string{fmt.Sprintf("inj 1:40:%d:out%d", c, bit), fmt.Sprintf("inj 2:80:%d:in%d", c^(1<<bit), bit), fmt.Sprintf("inj 1:40:%d:o2,2:80:%d:i2", c^(1<<bit)^(1<<((bit+7)%32)), c^(1<<bit)^(1<<((bit+7)%32)))})
	}
	jobs = append(jobs, chunk(map[string]any{"fix": "std", "init": []string{"A w/d", "A w/d2"}, "inject": "true"}, ih, nil, 16)...)
	return jobs
}

// ---------------- C10: Errors carries only genuine failures ----------------

func c10Jobs(tier string) []Job {
	var jobs []Job
	bound := 2
	for _, h := range []string{"idle", "mixed3", "burst6", "mvrm", "mvrmdir", "rmadd"} {
		for _, c := range []string{"list", "close", "add||remove"} {
			for _, cons := range []string{"both", "errors"} {
				for _, capa := range []int{-1, 1} {
					if tier != "thorough" && (capa == 1 && c != "list") {
						continue
					}
					b := bound
					if c == "add||remove" && tier != "thorough" {
						b = 1
					}
					jobs = append(jobs, Job{Family: "ctl", Bound: b, Params: map[string]any{"hist": h, "ctl": c, "cons": cons, "cap": capa}})
				}
			}
		}
	}
	for _, c := range []string{"add-close", "remove-close", "add||remove", "list"} {
		for _, cons := range []string{"none", "events", "both"} {
			jobs = append(jobs, Job{Family: "ctl", Bound: bound, Params: map[string]any{"hist": "overflow", "ctl": c, "cons": cons, "cap": -1}})
		}
	}
	jobs = append(jobs, jobsOverflow(tier)...)
	// the histories the property names, in every batching (bursts) - also part of the searches below
	hs := [][]string{
		{"mv w/f w/g ;; rm w/g"}, {"mv w/f w/g", "rm w/g"}, {"mv w/d w/e ;; rmr w/e"}, {"mv w/d w/e ;; rm w/e/a ;; rm w/e/b"},
		{"rm w/f ;; R w/f"}, {"rm w/f", "R w/f"}, {"rmr w/d ;; mkdir w/d ;; A w/d"}, {"rmr w/d ;; mkdir w/d", "A w/d"}, {"rmr w/d", "mkdir w/d ;; A w/d"},
		{"rm w/f ;; touch w/f ;; A w/f"}, {"mv w/f w/g ;; touch w/f ;; A w/f ;; rm w/g"},
	}
	jobs = append(jobs, chunk(map[string]any{"fix": "std", "init": []string{"A w/d", "A w/f"}}, hs, nil, 3)...)
	return jobs
}

// ---------------- C14: buffering and other Watchers do not matter ----------------

func c14Jobs(tier string) []Job {
	caps := []int{-1, 0, 1, 2, 4, 8, 16, 64, 256, 1024, 4096, 16384, 65536}
	long := strings.Repeat("L", 250) // a record longer than 256 bytes: anything sized from the channel capacity shows
	base := []string{"touch w/d/n", "write w/d/a", "chmod w/d/a", "rm w/d/a", "mv w/d/a w/d/c", "mv w/o/p w/d/p", "mv w/d/b w/o/b", "write w/f", "mv w/f w/g", "mkdir w/d/m", "touch w/d/" + long}
	var hist [][]string
	for _, a := range base {
		hist = append(hist, []string{a})
		for _, b := range base {
			hist = append(hist, []string{a + " ;; " + b}, []string{a, b})
			if tier == "thorough" {
				for _, c := range base {
					hist = append(hist, []string{a + " ;; " + b + " ;; " + c})
				}
			}
		}
	}
	hist = append(hist, []string{"touch w/d/n1 ;; touch w/d/n2 ;; touch w/d/n3 ;; write w/d/n1 ;; rm w/d/n2 ;; mv w/d/n3 w/d/n4 ;; chmod w/f ;; write w/f"})
	var jobs []Job
	// Kernel coalescing depends on when the queue is read, so only runs with
	// the same read points are comparable: step-by-step histories are compared
	// across capacities with an eager consumer; single bursts additionally
	// with the consumer attached only afterwards (nothing is read in between
	// in either case).
	for _, single := range []bool{true, false} {
		var hs [][]string
		var vars []map[string]any
		group := len(caps)
		if single {
			group += 5
		}
		for _, h := range hist {
			if (len(h) == 1) != single {
				continue
			}
			for _, c := range caps {
				hs = append(hs, h)
				vars = append(vars, map[string]any{"cap": c})
			}
			if single {
				// no consumer during the history: a buffer that can hold everything absorbs it
				for _, c := range []int{0, 1, 8, 64, 65536} {
					hs = append(hs, h)
					vars = append(vars, map[string]any{"cap": c, "late": "true", "expect_absorbed": 24})
				}
			}
		}
		for off := 0; off < len(hs); off += group * 4 {
			end := off + group*4
			if end > len(hs) {
				end = len(hs)
			}
			jobs = append(jobs, Job{Family: "seq-batch", Params: map[string]any{"base": map[string]any{"fix": "std", "init": []string{"A w/d", "A w/f"}},
				"histories": hs[off:end], "variants": vars[off:end], "group": group}})
			jobs[len(jobs)-1].Params["base"].(map[string]any)["tag14"] = "true"
		}
	}
	// buffered Watchers whose consumer lags: every step is read (no kernel coalescing across steps) but nothing
	// is received until the end; judged against the reference model (read points differ between capacities)
	{
		var hs [][]string
		var vars []map[string]any
		steps := []string{"chmod w/d/a", "write w/d/a", "touch w/d/n", "chmod w/f", "write w/f", "rm w/d/n"}
		for _, a := range steps {
			for _, b := range steps {
				for _, c := range steps {
					for _, capa := range []int{1, 2, 8, 64} {
						hs = append(hs, []string{a, b, c})
						vars = append(vars, map[string]any{"cap": capa, "late": "q", "tag14": "true"})
					}
				}
			}
		}
		jobs = append(jobs, chunk(map[string]any{"fix": "std", "init": []string{"A w/d", "A w/f"}}, hs, vars, 54)...)
	}
	// the same with a watched path deleted, recreated and added again while its Remove is still undelivered, and with
	// bursts that fill the 64 KiB read buffer exactly / by one record less or more: nothing may depend on the capacity
	{
		var hs [][]string
		var vars []map[string]any
		for _, capa := range []int{0, 1, 2, 16, 4096} {
			for _, h := range [][]string{{"rmr w/d", "mkdir w/d ;; A w/d", "touch w/d/file"}, {"rm w/f", "touch w/f ;; A w/f", "write w/f"},
				{"rmr w/d ;; mkdir w/d ;; A w/d", "touch w/d/file"}, {"mv w/f w/g", "touch w/f ;; A w/f", "write w/f", "write w/g"}} {
				hs = append(hs, h)
				vars = append(vars, map[string]any{"cap": capa, "late": "q", "tag14": "true"})
			}
		}
		jobs = append(jobs, chunk(map[string]any{"fix": "std", "init": []string{"A w/d", "A w/f"}}, hs, vars, 10)...)
		hs, vars = nil, nil
		for _, capa := range []int{0, 1, 4096} {
			for _, h := range [][]string{{"dirburst w/d 2047"}, {"dirburst w/d 2048"}, {"dirburst w/d 2049"}, {"fileburst w/f 4096"}, {"fileburst w/f 4097"}} {
				hs = append(hs, h)
				vars = append(vars, map[string]any{"cap": capa, "late": "q", "tag14": "true"})
			}
		}
		jobs = append(jobs, chunk(map[string]any{"fix": "std", "init": []string{"A w/d", "A w/f"}, "maxsteps": 2000000}, hs, vars, 1)...)
	}
	// other Watchers on the same paths, created / used / closed at every position of a history
	other := [][]string{{"1:N 4", "1:A w/d", "1:A w/f"}, {"1:N", "1:A w/d", "1:R w/d"}, {"1:N 1", "1:A w/d", "1:C"}, {"1:N", "1:A w/f", "1:C", "1:R w/f", "1:A w/d"},
		{"1:N", "2:N 2", "1:A w/d", "2:A w/d", "1:C", "2:R w/d"},
		// the API of a closed Watcher is used while another one (which got the recycled descriptor number) is live
		{"1:N", "1:A w/d", "1:C", "2:N", "2:A w/d", "1:R w/d", "1:A w/d", "1:L"},
		{"1:N", "1:A w/f", "1:A w/d", "1:C", "2:N 8", "2:A w/d", "2:A w/f", "1:R w/f", "1:R w/d", "1:C"},
		// other Watchers on the same directories under other spellings (anything shared between Watchers shows in the names)
		{"1:N", "1:A $W/d", "1:A ./w/d2", "2:N 4", "2:A w/ld", "2:A $W/d2"},
		// other Watchers whose watch descriptors are numbered differently for the same paths (anything
		// shared between readers, such as a read buffer, then decodes the neighbour's records wrongly)
		{"1:N", "1:A w/f", "1:A w/d2", "1:A w/d", "2:N 1", "2:A w/o", "2:A w/d"}}
	main := [][]string{{"touch w/d/n", "write w/d/a", "mv w/d/a w/d/c", "rm w/d/n"}, {"write w/f", "chmod w/f", "mv w/f w/g"}, {"touch w/d/n ;; write w/d/a", "rm w/d/b ;; mkdir w/d/m"},
		{"A w/d2", "mv w/d/a w/d2/a", "mv w/d2/a w/d/a ;; mv w/d/b w/d/c", "mv w/d/c w/o/c"},
		{"touch w/d/n1 ;; write w/f ;; touch w/d/n2 ;; chmod w/f ;; rm w/d/n1", "write w/d/a ;; write w/f ;; write w/d/b"}}
	var oh [][]string
	for _, m := range main {
		for _, o := range other {
			// every way of merging o into m preserving both orders is too many; place o's steps at every single position, in order, spread or together
			for pos := 0; pos <= len(m); pos++ {
				var h []string
				h = append(h, m[:pos]...)
				h = append(h, o...)
				h = append(h, m[pos:]...)
				oh = append(oh, h)
			}
			// interleaved one-for-one
			var h []string
			for i := 0; i < len(m) || i < len(o); i++ {
				if i < len(o) {
					h = append(h, o[i])
				}
				if i < len(m) {
					h = append(h, m[i])
				}
			}
			oh = append(oh, h)
		}
	}
	jobs = append(jobs, chunk(map[string]any{"fix": "std", "init": []string{"A w/d", "A w/f"}, "syncclose": "true", "tag14": "true"}, oh, nil, 4)...)
	return jobs
}

func init() {
	Checks["C08"] = &CheckDef{Prop: "C08", Jobs: c08Jobs, BFS: func(tier string) []*BFSDef { return []*BFSDef{bfsRec(tier)} },
		Rule:      "E2/E4: the cross product of Add spellings (relative, ./, //, x/../, trailing slash, /., absolute, via relative and absolute symlink to a directory, symlink to a file) x entry names of every padded length 16..256 plus space/dot/dash/multi-byte UTF-8 x position in a one- or two-record batch (three for the plain spelling), each run on the real code; expected name = filepath.Clean(argument) [+ '/' + entry], byte-exact; plus first-added-wins histories for link/target, hard link/file and several spellings of one directory",
		Technique: "exhaustive enumeration of a finite spelling x name-shape x batch-position product on the real code against the reference model's byte-exact name",
		Assume:    []string{"names are taken from the raw kernel records (read seam), spellings from the Add argument"}}
	Checks["C11"] = &CheckDef{Prop: "C11", Jobs: c11Jobs, BFS: func(tier string) []*BFSDef { return []*BFSDef{bfsMoves(tier)} },
		Rule:      "E2: BFS over moves within / between / into / out of two watched directories with creates and hard links, plus bursts of up to three; chains of 9..25 moves (ring wrap), 0..12 unmatched move-outs before a move-in, create, link or matched move; every interleaving of the MOVED_FROM/MOVED_TO halves of 2 and 3 simultaneous moves that keeps each FROM before its TO (6 and 90 orders), injected as crafted records for really registered watch descriptors, whole and split over two reads",
		Technique: "explicit-state model checking (BFS) plus exhaustive enumeration of injected record interleavings; oracle = the Create of a MOVED_TO carries exactly the name of the Rename with the same cookie, every other Create carries none",
		Assume:    []string{"interleaved halves cannot be produced deterministically by real concurrent renames (the interleaving happens inside the kernel) and are injected instead"}}
	Checks["C10"] = &CheckDef{Prop: "C10", Jobs: c10Jobs, BFS: func(tier string) []*BFSDef { return []*BFSDef{bfsC09(tier)} },
		Rule:      "E1+E2: every schedule (preemption bound 2) of rename-then-delete, rename-then-rmdir, delete-then-recreate and burst histories against control calls, with consumers on Errors, so that the reader's position relative to each step is enumerated; the end-of-watch BFS with all two-operation bursts; an injected overflow marker at every position of a batch followed by further records and Add/Remove",
		Technique: "stateless model checking (schedule enumeration) and explicit-state BFS of the real code; oracle = the multiset of values received on Errors equals the kernel overflow markers (as ErrEventOverflow) plus injected read faults, and the Watcher keeps working after an overflow",
		Assume:    []string{"real queue overflow is exercised once in the thorough tier; its position inside a batch is enumerated with injected markers"}}
	Checks["C14"] = &CheckDef{Prop: "C14", Side: racePassMulti, Jobs: func(tier string) []Job { return append(c14Jobs(tier), multiJobs(tier)...) },
		Rule:      "E2 differential: every history of one or two operations (thorough: three) over ten operations, as a burst and step by step, is run with Events capacity -1(default),0,1,2,4,...,65536 with an eager consumer and with capacity 0,1,8,64,65536 with the consumer attached only after the history; all runs of one history must deliver byte-identical sequences (and each must match the reference model); a Watcher whose capacity covers the history must absorb it with no consumer; cap(Events) must equal the request; then histories with one or two other Watchers being created, adding/removing the same paths and being closed at every position (synchronous close, so descriptor numbers are really reused)",
		Technique: "exhaustive differential enumeration over configurations (buffer sizes, co-existing Watchers) on the real code",
		Assume:    []string{"other Watchers run in the same process and share the scheduler"}}
}

// sameProps: a re-run reproduces a violation if it violates the same
// properties (details may differ where the code under test iterates over a Go
// map, whose order is random by design and compared as a set everywhere).
func sameProps(a, b []Violation) bool {
	pa, pb := map[string]bool{}, map[string]bool{}
	for _, v := range a {
		pa[v.Property] = true
	}
	for _, v := range b {
		pb[v.Property] = true
	}
	if len(pa) != len(pb) {
		return false
	}
	for k := range pa {
		if !pb[k] {
			return false
		}
	}
	return true
}
