package harness

import (
	"bufio"
	"encoding/json"
	"fmt"
	"os"
	"os/exec"
	"path/filepath"
	"runtime"
	"sort"
	"strconv"
	"strings"
	"sync"
	"time"

	"verif/engine/vsched"
	"verif/engine/vsys"
)

// CheckDef describes how one property is decided.
type CheckDef struct {
	Prop      string
	Technique string
	Rule      string // how cases are enumerated / what a state and a transition are
	Assume    []string
	// Jobs lists the exploration jobs of a tier (scheduler-based checks).
	Jobs func(tier string) []Job
	// Direct runs an in-process exhaustive enumeration instead (E4 checks).
	Direct func(tier string, deadline time.Time) *DirectResult
	// Post runs after the searches and contributes coverage entries (e.g. validation of a simulated environment).
	Post func(tier string) (map[string]any, []string)
	// Side runs a supplementary detector that can only add reports (never part of the coverage claim).
	Side func(tier string) (map[string]any, []Violation, []string)
	// BFS lists explicit-state searches over operation sequences (E2).
	BFS                           func(tier string) []*BFSDef
	QuickSeconds, ThoroughSeconds int
}

type DirectResult struct {
	States, Transitions, Traces int
	Exhaustive                  bool
	Samples                     []any
	Violations                  []Violation
	Extra                       map[string]any
	EngineErr                   string
}

var Checks = map[string]*CheckDef{}

func verifDir() string {
	if d := os.Getenv("VERIF_DIR"); d != "" {
		return d
	}
	return "/verif"
}

// ---------------- worker ----------------

func runJob(j Job) JobResult {
	if jr, ok := JobRunners[j.Family]; ok {
		return jr(j)
	}
	res := JobResult{Job: j}
	mk, ok := Families[j.Family]
	if !ok {
		res.EngineErr = "unknown family " + j.Family
		return res
	}
	sc := mk(j.Params)
	// determinism self-check: the default schedule twice
	a := RunOnce(sc, nil, false, nil)
	b := RunOnce(sc, nil, false, nil)
	if a.EngineErr != "" {
		res.EngineErr = a.EngineErr + " (scenario " + sc.Name + ", default schedule)"
		return res
	}
	if a.TraceHash != b.TraceHash {
		res.EngineErr = fmt.Sprintf("nondeterminism: default schedule of %s gave two different traces", sc.Name)
		return res
	}
	var deadline func() bool
	dl := j.DeadlineUnix
	if j.MaxSeconds > 0 {
		if own := time.Now().Unix() + int64(j.MaxSeconds); dl == 0 || own < dl {
			dl = own
		}
	}
	if dl > 0 {
		deadline = func() bool { return time.Now().Unix() >= dl }
	}
	var keyFn func(*vsched.Sched, *X) string
	if j.Prune {
		keyFn = func(s *vsched.Sched, x *X) string {
			k := x.StateKey()
			if k == "" {
				return ""
			}
			return s.Key(k)
		}
	}
	st, viols, eerr := Explore(sc, j.Bound, j.Budget, j.StopFirst, deadline, keyFn)
	res.Stats = st
	if eerr != "" {
		res.EngineErr = eerr
		return res
	}
	// keep, per (property, signature), the violation with the fewest preemptions
	best := map[string]Violation{}
	for _, v := range viols {
		k := v.Property + "\x00" + v.Signature
		if o, ok := best[k]; !ok || v.Preemptions < o.Preemptions || v.Preemptions == o.Preemptions && len(v.Choices) < len(o.Choices) {
			best[k] = v
		}
	}
	keys := make([]string, 0, len(best))
	for k := range best {
		keys = append(keys, k)
	}
	sort.Strings(keys)
	for _, k := range keys {
		v := best[k]
		// a violation is believed only if its schedule reproduces it five times
		for i := 0; i < 5; i++ {
			r := RunOnce(sc, v.Choices, i == 0, nil)
			found := false
			for _, rv := range r.Violations {
				if rv.Property == v.Property && rv.Signature == v.Signature {
					found = true
				}
			}
			if !found || r.EngineErr != "" {
				res.EngineErr = fmt.Sprintf("violation %q of %s did not reproduce from its schedule (%s)", v.Signature, sc.Name, r.EngineErr)
				return res
			}
			if i == 0 {
				v.Trace = r.Trace
				v.Log = r.Log
			}
		}
		res.Violations = append(res.Violations, v)
	}
	res.Sample = a.Choices
	return res
}

// tuneCloses sizes the deferred-close pool to the per-user inotify instance limit.
func tuneCloses(nworkers int) {
	limit := 128
	if b, err := os.ReadFile("/proc/sys/fs/inotify/max_user_instances"); err == nil {
		if n, e := strconv.Atoi(strings.TrimSpace(string(b))); e == nil {
			limit = n
		}
	}
	if limit < 4096 { // best effort; needs root
		if os.WriteFile("/proc/sys/fs/inotify/max_user_instances", []byte("8192\n"), 0o644) == nil {
			limit = 8192
		}
	}
	if nworkers < 1 {
		nworkers = 1
	}
	m := limit*3/4/nworkers - 6
	if m < 2 {
		m = 2
	}
	if m > 64 {
		m = 64
	}
	vsys.MaxInflightCloses = m
}

func WorkerMain() int {
	nw, _ := strconv.Atoi(os.Getenv("VHARN_WORKERS"))
	tuneCloses(nw)
	defer vsys.DrainCloses()
	InitWorkRoot()
	defer CleanupWorkRoot()
	in := bufio.NewReaderSize(os.Stdin, 1<<20)
	out := bufio.NewWriter(os.Stdout)
	for {
		line, err := in.ReadBytes('\n')
		if len(line) > 1 {
			var j Job
			if e := json.Unmarshal(line, &j); e != nil {
				fmt.Fprintln(os.Stderr, "worker: bad job:", e)
				return 2
			}
			vsched.OnStall = func(_ *vsched.Sched, where string) {
				// the verdict for this job; the process cannot go on (the spinning goroutine cannot be stopped)
				st := Stats{Outcomes: map[string]int{}, BoundDone: -1}
				b, _ := json.Marshal(JobResult{Job: j, Stats: st, Violations: SpinViolations(where), WorkerGone: true})
				out.Write(b)
				out.WriteByte('\n')
				out.Flush()
				os.Exit(0)
			}
			r := runJob(j)
			b, _ := json.Marshal(r)
			out.Write(b)
			out.WriteByte('\n')
			out.Flush()
		}
		if err != nil {
			return 0
		}
	}
}

// ---------------- coordinator ----------------

type knownFile struct {
	Findings []struct {
		Property  string `json:"property"`
		Signature string `json:"signature"`
		What      string `json:"what"`
	} `json:"findings"`
	Fixed []string `json:"fixed"`
}

func loadKnown() knownFile {
	var k knownFile
	b, err := os.ReadFile(filepath.Join(verifDir(), "known_findings.json"))
	if err == nil {
		json.Unmarshal(b, &k)
	}
	return k
}

// RunJobs is runJobs for other harness packages.
func RunJobs(jobs []Job, nworkers int) ([]JobResult, string) { return runJobs(jobs, nworkers) }

func runJobs(jobs []Job, nworkers int) ([]JobResult, string) {
	if nworkers > len(jobs) {
		nworkers = len(jobs)
	}
	if nworkers < 1 {
		nworkers = 1
	}
	self, _ := os.Executable()
	jobCh := make(chan Job)
	resCh := make(chan JobResult, len(jobs))
	errCh := make(chan string, nworkers)
	var wg sync.WaitGroup
	for i := 0; i < nworkers; i++ {
		wg.Add(1)
		go func() {
			defer wg.Done()
			var cmd *exec.Cmd
			var stdin *bufio.Writer
			var stdout *bufio.Reader
			var closeIn func()
			start := func() error {
				cmd = exec.Command(self, "worker")
				cmd.Env = append(os.Environ(), "GOMAXPROCS=2", fmt.Sprintf("VHARN_WORKERS=%d", nworkers))
				cmd.Stderr = os.Stderr
				ip, err := cmd.StdinPipe()
				if err != nil {
					return err
				}
				op, err := cmd.StdoutPipe()
				if err != nil {
					return err
				}
				stdin, stdout, closeIn = bufio.NewWriter(ip), bufio.NewReaderSize(op, 1<<20), func() { ip.Close() }
				return cmd.Start()
			}
			if err := start(); err != nil {
				errCh <- err.Error()
				return
			}
			n := 0
			for j := range jobCh {
				b, _ := json.Marshal(j)
				stdin.Write(b)
				stdin.WriteByte('\n')
				stdin.Flush()
				line, err := stdout.ReadBytes('\n')
				if err != nil {
					resCh <- JobResult{Job: j, EngineErr: "worker died: " + err.Error()}
					cmd.Wait()
					if e := start(); e != nil {
						errCh <- e.Error()
						return
					}
					continue
				}
				var r JobResult
				if e := json.Unmarshal(line, &r); e != nil {
					r = JobResult{Job: j, EngineErr: "bad worker output: " + e.Error()}
				}
				resCh <- r
				n++
				if r.WorkerGone || n%200 == 0 { // recycle the worker process now and then (and when it had to give itself up)
					closeIn()
					cmd.Wait()
					if e := start(); e != nil {
						errCh <- e.Error()
						return
					}
				}
			}
			closeIn()
			cmd.Wait()
		}()
	}
	go func() {
		for _, j := range jobs {
			jobCh <- j
		}
		close(jobCh)
	}()
	wg.Wait()
	close(resCh)
	select {
	case e := <-errCh:
		return nil, e
	default:
	}
	var out []JobResult
	for r := range resCh {
		out = append(out, r)
	}
	sort.Slice(out, func(i, k int) bool { return out[i].Job.ID < out[k].Job.ID })
	return out, ""
}

func CheckMain(args []string) int {
	if len(args) < 1 {
		fmt.Fprintln(os.Stderr, "check: property id required")
		return 2
	}
	prop := args[0]
	tier := os.Getenv("VERIF_TIER")
	for i := 1; i < len(args); i++ {
		if args[i] == "--tier" && i+1 < len(args) {
			tier = args[i+1]
			i++
		}
	}
	if tier == "" {
		tier = "quick"
	}
	seed := 0
	if s := os.Getenv("VERIF_SEED"); s != "" {
		seed, _ = strconv.Atoi(s)
	}
	def, ok := Checks[prop]
	if !ok {
		fmt.Fprintln(os.Stderr, "check: no check for", prop)
		return 2
	}
	start := time.Now()
	secs := def.QuickSeconds
	if secs == 0 {
		secs = 70
	}
	if tier == "thorough" {
		secs = def.ThoroughSeconds
		if secs == 0 {
			secs = 900
		}
	}
	if s := os.Getenv("VERIF_SECONDS"); s != "" {
		secs, _ = strconv.Atoi(s)
	}
	deadline := start.Add(time.Duration(secs) * time.Second)

	cov := map[string]any{}
	var viols []Violation
	exhaustive := true
	var engineErrs []string
	states, transitions, traces := 0, 0, 0
	var samples []any
	if def.Direct != nil {
		r := def.Direct(tier, deadline)
		if r.EngineErr != "" {
			engineErrs = append(engineErrs, r.EngineErr)
		}
		states, transitions, traces = states+r.States, transitions+r.Transitions, traces+r.Traces
		samples = append(samples, r.Samples...)
		for k, v := range r.Extra {
			cov[k] = v
		}
		exhaustive = exhaustive && r.Exhaustive
		viols = append(viols, r.Violations...)
	}
	if def.Jobs != nil {
		jobs := def.Jobs(tier)
		for i := range jobs {
			jobs[i].ID = i
			jobs[i].DeadlineUnix = deadline.Unix()
			if def.BFS != nil && tier == "thorough" {
				// schedule jobs and explicit-state searches share the budget: the jobs get the first half at most
				jobs[i].DeadlineUnix = start.Add(time.Duration(secs) * time.Second / 2).Unix()
			}
		}
		// VERIF_SEED only permutes the order in which jobs are handed out
		if seed != 0 {
			r := uint64(seed)*6364136223846793005 + 1442695040888963407
			for i := len(jobs) - 1; i > 0; i-- {
				r = r*6364136223846793005 + 1442695040888963407
				k := int((r >> 33) % uint64(i+1))
				jobs[i], jobs[k] = jobs[k], jobs[i]
			}
		}
		// the open-ended deepening passes come after everything that has to finish
		sort.SliceStable(jobs, func(a, b int) bool { return !jobs[a].Deepening && jobs[b].Deepening })
		for i := range jobs {
			jobs[i].ID = i
		}
		results, err := runJobs(jobs, runtime.NumCPU())
		if err != "" {
			engineErrs = append(engineErrs, err)
		}
		execs, steps, points, maxPre := 0, 0, 0, 0
		pruned, gstates := 0, 0
		outcomes := map[string]bool{}
		boundDone := 1 << 30
		single := 0
		deep := map[string]int{"scenarios": 0, "all_interleavings_covered": 0, "executions": 0, "pruned_executions": 0, "lowest_preemption_bound_completed": 1 << 30, "highest_preemption_bound_completed": -1}
		for _, r := range results {
			if r.EngineErr != "" {
				engineErrs = append(engineErrs, r.EngineErr)
				continue
			}
			if r.Job.Deepening {
				// reported on its own: how far beyond the bounded pass each scenario got
				deep["scenarios"]++
				deep["executions"] += r.Stats.Executions
				deep["pruned_executions"] += r.Stats.Pruned
				if r.Stats.Exhaustive {
					deep["all_interleavings_covered"]++
				} else {
					if r.Stats.BoundDone < deep["lowest_preemption_bound_completed"] {
						deep["lowest_preemption_bound_completed"] = r.Stats.BoundDone
					}
					if r.Stats.BoundDone > deep["highest_preemption_bound_completed"] {
						deep["highest_preemption_bound_completed"] = r.Stats.BoundDone
					}
				}
				execs += r.Stats.Executions
				steps += r.Stats.Steps
				points += r.Stats.ChoicePoints
				if r.Stats.MaxPreempt > maxPre {
					maxPre = r.Stats.MaxPreempt
				}
				viols = append(viols, r.Violations...)
				continue
			}
			execs += r.Stats.Executions
			pruned += r.Stats.Pruned
			gstates += r.Stats.States
			steps += r.Stats.Steps
			points += r.Stats.ChoicePoints
			if r.Stats.MaxPreempt > maxPre {
				maxPre = r.Stats.MaxPreempt
			}
			if !r.Stats.Exhaustive && len(r.Violations) == 0 {
				exhaustive = false
			}
			if r.Stats.BoundDone < boundDone {
				boundDone = r.Stats.BoundDone
			}
			for o := range r.Stats.Outcomes {
				outcomes[r.Job.Family+fmt.Sprint(r.Job.Params)+o] = true
			}
			if len(r.Stats.Outcomes) <= 1 {
				single++
			}
			if len(samples) < 8 && r.Job.ID%(len(results)/6+1) == 0 {
				samples = append(samples, map[string]any{"family": r.Job.Family, "params": r.Job.Params, "bound": r.Job.Bound,
					"executions": r.Stats.Executions, "default_schedule_choices": r.Sample, "distinct_outcomes": len(r.Stats.Outcomes)})
			}
			viols = append(viols, r.Violations...)
		}
		if len(results) == 0 {
			boundDone = -1
		}
		if os.Getenv("VERIF_VERBOSE") != "" {
			sort.Slice(results, func(i, k int) bool { return results[i].Stats.Executions > results[k].Stats.Executions })
			for i, r := range results {
				if i < 25 {
					fmt.Fprintf(os.Stderr, "job %s %v bound=%d execs=%d exhaustive=%v\n", r.Job.Family, r.Job.Params, r.Job.Bound, r.Stats.Executions, r.Stats.Exhaustive)
				}
			}
		}
		states, transitions, traces = states+execs, transitions+steps, traces+execs
		cov["scenarios"] = len(results)
		cov["executions"] = execs
		cov["choice_points"] = points
		cov["preemption_bound_completed"] = boundDone // -1: unbounded search (all interleavings) with state-key pruning
		cov["pruned_executions"] = pruned
		cov["distinct_global_states_at_scheduling_points"] = gstates
		cov["max_preemptions_in_an_execution"] = maxPre
		cov["distinct_outcomes"] = len(outcomes)
		cov["scenarios_with_single_outcome"] = single
		if deep["scenarios"] > 0 {
			if deep["all_interleavings_covered"] == deep["scenarios"] {
				delete(deep, "lowest_preemption_bound_completed")
				delete(deep, "highest_preemption_bound_completed")
			}
			cov["deepening_pass_without_preemption_bound"] = deep
		}
	}
	if def.BFS != nil {
		var per []any
		for _, bd := range def.BFS(tier) {
			bd.Prop = def.Prop
			bs := RunBFS(bd, deadline)
			engineErrs = append(engineErrs, bs.EngineErrs...)
			states, transitions, traces = states+bs.States, transitions+bs.Steps, traces+bs.Transitions
			exhaustive = exhaustive && bs.Exhaustive
			viols = append(viols, bs.Violations...)
			for _, sm := range bs.Samples {
				if len(samples) < 10 {
					samples = append(samples, sm)
				}
			}
			per = append(per, map[string]any{"search": bd.Name, "alphabet_size": len(bd.Alphabet), "max_burst": bd.Burst, "transitions_per_state": len(bd.moves()), "depth_bound": bd.Depth, "depth_completed": bs.Depth,
				"fixed_point": bs.FixedPoint, "distinct_states": bs.States, "operations_applied": bs.Transitions, "new_states_per_depth": bs.PerDepth, "cut_by_deadline": !bs.Exhaustive,
				"burst_phase": map[string]any{"burst_len": bd.TailBurst, "from_states_up_to_depth": bd.TailDepth, "pairs_from_states_up_to_depth": bd.PairDepth, "bursts_applied": bs.TailTransitions, "new_states_seen": bs.TailNewStates}})
		}
		cov["searches"] = per
	}
	if def.Post != nil {
		m, errs := def.Post(tier)
		engineErrs = append(engineErrs, errs...)
		for k, v := range m {
			cov[k] = v
		}
		if n, ok := m["scripts_replayed_agreeing_with_recorded_bsd_expectation"].(int); ok {
			traces += n
		}
	}
	if def.Side != nil {
		m, vs, errs := def.Side(tier)
		engineErrs = append(engineErrs, errs...)
		for k, v := range m {
			cov[k] = v
		}
		viols = append(viols, vs...)
	}
	cov["states"], cov["transitions"], cov["traces_validated_against_impl"], cov["samples"] = states, transitions, traces, samples
	cov["exhaustive"] = exhaustive
	cov["rule"] = def.Rule

	// classify
	known := loadKnown()
	filtered := 0
	code := 0
	var lines []string
	seenSig := map[string]bool{}
	for i := range viols {
		v := &viols[i]
		if v.Property != prop {
			continue
		}
		if seenSig[v.Signature] {
			continue
		}
		seenSig[v.Signature] = true
		isKnown := false
		for _, k := range known.Findings {
			if k.Property == prop && k.Signature == v.Signature {
				isKnown = true
				lines = append(lines, fmt.Sprintf("KNOWN-FINDING: property=%s %s", prop, k.What))
			}
		}
		if isKnown {
			continue
		}
		path := WriteReplay(filepath.Join(verifDir(), "replays"), v)
		if v.Fresh {
			// not reproducible inside the process that found it: believed only if two fresh processes both show it
			self, _ := os.Executable()
			ok := true
			for i := 0; i < 2 && ok; i++ {
				c := exec.Command(self, "replay", path)
				c.Env = append(os.Environ(), "VHARN_QUIET=1")
				if err := c.Run(); err == nil || c.ProcessState.ExitCode() != 1 {
					ok = false
				}
			}
			if !ok {
				engineErrs = append(engineErrs, fmt.Sprintf("violation %q of %s reproduces neither in the worker that found it nor from a fresh process (state-dependent?)", v.Signature, v.Scenario))
				continue
			}
		}
		filtered++
		lines = append(lines, fmt.Sprintf("VIOLATION property=%s replay=%s", prop, path))
		lines = append(lines, fmt.Sprintf("  scenario=%s preemptions=%d signature=%q", v.Scenario, v.Preemptions, v.Signature))
		code = 1
	}
	if len(engineErrs) > 0 {
		sort.Strings(engineErrs)
		for _, e := range uniq(engineErrs) {
			fmt.Fprintln(os.Stderr, "ENGINE-ERROR:", e)
		}
		if code == 0 {
			code = 2
		}
	}
	ev := map[string]any{
		"property_id": prop, "tier": tier, "seed": seed, "level": "model_checking",
		"coverage": cov, "wall_s": time.Since(start).Seconds(), "violations": filtered,
		"assumptions": def.Assume, "technique": def.Technique,
	}
	if code != 2 {
		b, _ := json.MarshalIndent(ev, "", " ")
		os.MkdirAll(filepath.Join(verifDir(), "evidence"), 0o755)
		os.WriteFile(filepath.Join(verifDir(), "evidence", prop+".json"), append(b, '\n'), 0o644)
	}
	for _, l := range lines {
		fmt.Println(l)
	}
	fmt.Printf("%s tier=%s states=%v transitions=%v exhaustive=%v violations=%d wall=%.1fs\n", prop, tier, cov["states"], cov["transitions"], exhaustive, filtered, time.Since(start).Seconds())
	return code
}

// ReplayMain re-runs one violation file without the explorer and prints the trace.
func ReplayMain(args []string) int {
	if len(args) < 1 {
		fmt.Fprintln(os.Stderr, "replay: file required")
		return 2
	}
	b, err := os.ReadFile(args[0])
	if err != nil {
		fmt.Fprintln(os.Stderr, err)
		return 2
	}
	var v Violation
	if err := json.Unmarshal(b, &v); err != nil {
		fmt.Fprintln(os.Stderr, err)
		return 2
	}
	fam := v.Scenario
	if i := strings.Index(fam, "/"); i >= 0 {
		fam = fam[:i]
	}
	mk, ok := Families[fam]
	if !ok {
		if d, ok := DirectReplays[v.Property]; ok {
			return d(&v)
		}
		fmt.Fprintln(os.Stderr, "replay: unknown family", fam)
		return 2
	}
	InitWorkRoot()
	defer CleanupWorkRoot()
	sc := mk(v.Params)
	vsched.OnStall = func(_ *vsched.Sched, where string) {
		for _, sv := range SpinViolations(where) {
			if sv.Property == v.Property {
				fmt.Printf("violation: property=%s signature=%q\n  %s\n", sv.Property, sv.Signature, sv.Detail)
				if strings.HasPrefix(v.Signature, "a thread of the code under test spins") {
					fmt.Printf("VIOLATION property=%s replay=%s\n", v.Property, args[0])
					CleanupWorkRoot()
					os.Exit(1)
				}
			}
		}
	}
	r := RunOnce(sc, v.Choices, true, nil)
	for _, l := range r.Trace {
		fmt.Println(l)
	}
	if r.EngineErr != "" {
		fmt.Println("ENGINE-ERROR:", r.EngineErr)
		return 2
	}
	hit := false
	for _, rv := range r.Violations {
		fmt.Printf("violation: property=%s signature=%q\n  %s\n", rv.Property, rv.Signature, rv.Detail)
		if rv.Property == v.Property && rv.Signature == v.Signature {
			hit = true
		}
	}
	if hit {
		fmt.Printf("VIOLATION property=%s replay=%s\n", v.Property, args[0])
		return 1
	}
	fmt.Println("replay: the recorded violation did not occur on this tree")
	return 0
}

// DirectReplays re-run violations of non-scheduler checks.
var DirectReplays = map[string]func(v *Violation) int{}
