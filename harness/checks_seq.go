package harness

import "strings"

// ---- explicit-state searches (E2) ----

func spellings(rel string) []string {
	// equivalent spellings of w/<rel>; $W is the absolute scratch root
	dir, base := "w", rel
	if i := strings.LastIndex(rel, "/"); i >= 0 {
		dir, base = "w/"+rel[:i], rel[i+1:]
	}
	return []string{
		dir + "/" + base,
		"./" + dir + "/" + base,
		dir + "//" + base,
		dir + "/../" + dir + "/" + base,
		"$W/" + rel,
		dir + "/" + base + "/",
		dir + "/" + base + "/.",
	}
}

// bfsC04core: one spelling per target, every filesystem step; small enough to reach its fixed point.
func bfsC04core(tier string) *BFSDef {
	var al []string
	for _, t := range []string{"w/f", "w/d", "w/lf", "w/ld", "w/h", "w/m", "w/d/a"} {
		al = append(al, "A "+t, "R "+t)
	}
	al = append(al, "rm w/f", "touch w/f", "mv w/f w/g", "mv w/g w/f", "resym d/a w/lf", "resym f w/lf", "ln w/f w/h", "rm w/h", "write w/f",
		// an entry of a watched directory that is watched in its own right is renamed / removed / recreated
		"mv w/d/a w/d/c", "mv w/d/c w/d/a", "rm w/d/a", "touch w/d/a")
	d := 7
	if tier == "thorough" {
		d = 60
	}
	td := 2
	if tier == "thorough" {
		td = 5
	}
	return &BFSDef{Name: "c04-core", Base: map[string]any{"fix": "std4", "init": []string{}}, Alphabet: al, Depth: d, TailBurst: 2, TailDepth: td}
}

func bfsC04(tier string) *BFSDef {
	var al []string
	for _, s := range spellings("f") {
		al = append(al, "A "+s, "R "+s)
	}
	for _, s := range spellings("d") {
		al = append(al, "A "+s, "R "+s)
	}
	for _, t := range []string{"w/lf", "w/ld", "w/h", "w/m", "w/f/x", "w/loop", "w/" + strings.Repeat("n", 256), "w/d/a"} {
		al = append(al, "A "+t, "R "+t)
	}
	al = append(al, "rm w/f", "touch w/f", "mv w/f w/g", "mv w/g w/f", "resym d/a w/lf", "resym f w/lf", "ln w/f w/h", "rm w/h",
		"write w/f", "rmr w/d", "mkdir w/d", "touch w/d/a")
	d := 4
	if tier == "thorough" {
		d = 7
	}
	return &BFSDef{Name: "c04-watchset", Base: map[string]any{"fix": "std4", "init": []string{}}, Alphabet: al, Depth: d}
}

func bfsC09(tier string) *BFSDef {
	al := []string{"rm w/p/f", "mv w/p/f w/p/g", "mv w/p/g w/p/f", "touch w/p/f", "A w/p/f", "R w/p/f", "open w/p/f", "closefd w/p/f",
		"write w/p/f", "write w/p/g", "rmr w/p", "mkdir w/p", "A w/p", "R w/p", "A w/lpf", "R w/lpf"}
	d := 30 // the search reaches its fixed point (no new canonical state) well before
	return &BFSDef{Name: "c09-end-of-watch", Base: map[string]any{"fix": "c09", "init": []string{"A w/p/f"}, "tag09": "true"}, Alphabet: al, Depth: d, Burst: 2}
}

func bfsC12(tier string) *BFSDef {
	al := []string{"A w/f", "R w/f", "ln w/f w/h", "rm w/f", "touch w/f", "rm w/h", "open w/f", "closefd w/f", "mv w/f w/g", "mv w/g w/f",
		"A w/lf", "R w/lf", "resym d/a w/lf", "resym f w/lf", "A w/d/a", "R w/d/a", "A w/h", "R w/h"}
	d := 8
	if tier == "thorough" {
		d = 40
	}
	td := 2
	if tier == "thorough" {
		td = 6
	}
	return &BFSDef{Name: "c12-kernel-vs-tables", Base: map[string]any{"fix": "std4", "init": []string{}}, Alphabet: al, Depth: d, TailBurst: 2, TailDepth: td}
}

// burst4Jobs: every burst of three and of four operations (nothing read in between) over the eight
// operations of a log rotation - delete / Remove / recreate / re-Add / rename / hold open - from {Add f},
// followed by quiescence, a write and a Remove: histories in which several watch descriptors of one path
// are in flight at once.
func burst4Jobs(tier string) []Job {
	al := []string{"rm w/f", "R w/f", "touch w/f", "A w/f", "mv w/f w/g", "mv w/g w/f", "open w/f", "closefd w/f"}
	var hs [][]string
	var rec func(cur []string, n int)
	rec = func(cur []string, n int) {
		if len(cur) >= 3 {
			hs = append(hs, []string{strings.Join(cur, " ;; "), "write w/f", "R w/f"})
		}
		if n == 0 {
			return
		}
		for _, a := range al {
			rec(append(append([]string{}, cur...), a), n-1)
		}
	}
	rec(nil, 4)
	return chunk(map[string]any{"fix": "std4", "init": []string{"A w/f"}, "tag09": "true"}, hs, nil, 150)
}

const seqRule = "E2: breadth-first search over operation sequences from the listed alphabet; each transition replays the sequence on a fresh directory and Watcher and applies one more operation to the real code against the real kernel, then lets reader and consumer run to quiescence; a state is the canonical form (filesystem picture by inode rank, both library tables with watch descriptors renamed to rank, kernel marks from /proc/self/fdinfo, cookie ring); the reference model is updated from API results, seam syscalls and the raw bytes of every kernel read and compared at every quiescence"

func init() {
	Checks["C04"] = &CheckDef{Prop: "C04", Rule: seqRule,
		Technique: "explicit-state model checking of the real code: BFS over API/filesystem operation sequences with canonical-state deduplication against a reference watch-set model",
		BFS:       func(tier string) []*BFSDef { return []*BFSDef{bfsC04(tier), bfsC04core(tier), bfsC12(tier)} },
		Jobs:      burst4Jobs,
		Assume:    []string{"reader/consumer run to quiescence after every operation (sequential histories)", "kernel inotify deterministic for sequential syscalls"}}
	Checks["C09"] = &CheckDef{Prop: "C09", Rule: seqRule,
		Technique: "explicit-state model checking of the real code: BFS over delete/rename/recreate/re-add histories with canonical-state deduplication against the reference model",
		BFS:       func(tier string) []*BFSDef { return []*BFSDef{bfsC09(tier)} },
		Jobs:      burst4Jobs,
		Assume:    []string{"sequential histories with quiescence after each step"}}
	Checks["C12"] = &CheckDef{Prop: "C12", Rule: seqRule,
		Technique: "explicit-state model checking of the real code: BFS with the kernel's mark list (/proc/self/fdinfo) and the library tables compared with the reference model in every quiescent state; fixed point = all cycles",
		BFS: func(tier string) []*BFSDef {
			if tier != "thorough" {
				// C09's search (to its fixed point) is part of the thorough tier only
				return []*BFSDef{bfsC12(tier), bfsC04core(tier), bfsRec(tier)}
			}
			return []*BFSDef{bfsC12(tier), bfsC09(tier), bfsC04core(tier), bfsRec(tier)}
		},
		Jobs:   func(tier string) []Job { return append(burst4Jobs(tier), c12OpsJobs(tier)...) },
		Assume: []string{"sequential histories with quiescence after each step"}}
}

// c12OpsJobs: add / delete / recreate / re-add cycles of watches that were requested with an explicit operation set:
// without Remove in the set the kernel announces the end of the watch with IN_IGNORED alone, without Rename a
// renamed watch stays where it is. Tables, kernel marks and WatchList are compared after every step as always.
func c12OpsJobs(tier string) []Job {
	var hs [][]string
	var vars []map[string]any
	for _, ops := range []string{"2", "10", "1", "8", "4", "1b", "17"} {
		var cyc []string
		for i := 0; i < 5; i++ {
			cyc = append(cyc, "rm w/f", "touch w/f", "AW w/f "+ops)
		}
		hs = append(hs, cyc, []string{"mv w/f w/g", "touch w/f", "AW w/f " + ops, "write w/g", "rm w/g", "rm w/f"}, []string{"rmr w/d", "mkdir w/d", "AW w/d " + ops, "touch w/d/n", "rmr w/d"})
		for i := 0; i < 3; i++ {
			vars = append(vars, map[string]any{"init": []string{"AW w/f " + ops, "AW w/d " + ops}})
		}
	}
	return chunk(map[string]any{"fix": "std"}, hs, vars, 4)
}
