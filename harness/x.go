// Package harness drives the instrumented fsnotify (verif/gen/fsnotify) under
// the cooperative scheduler: execution context, harness operations (each one
// a scheduling point), consumers, and the record of everything observed.
package harness

import (
	"errors"
	"fmt"
	"os"
	"path/filepath"
	"sort"
	"strings"
	"syscall"

	"verif/engine/vsched"
	"verif/engine/vsys"
	"verif/gen/fsnotify"

	"golang.org/x/sys/unix"
)

// Obs is one observation, in global (scheduler) order.
type Obs struct {
	Seq    int      `json:"seq"`
	Step   int      `json:"step"`
	Thread string   `json:"thread"`
	Kind   string   `json:"kind"` // call, ret, fs, event, error, events-closed, errors-closed, note
	What   string   `json:"what"`
	Arg    string   `json:"arg,omitempty"`
	Err    string   `json:"err,omitempty"`
	Name   string   `json:"name,omitempty"` // event name
	Op     uint32   `json:"op,omitempty"`
	From   string   `json:"from,omitempty"` // renamedFrom
	W      int      `json:"w,omitempty"`    // watcher index
	CallID int      `json:"call,omitempty"`
	List   []string `json:"list,omitempty"`
}

type X struct {
	S        *vsched.Sched
	Root     string // absolute path of the per-execution directory (cwd is its parent)
	Log      []Obs
	Watchers []*fsnotify.Watcher
	callSeq  int
	fds      map[string]int
	Vars     map[string]any
	// KeyExtra, if set, adds a family's own shared state to StateKey; returning "" makes the key unusable.
	KeyExtra func() string
	// SharedExtra, if set, adds a family's own shared memory to SharedDigest.
	SharedExtra func() string
	fsOps       int
	// AtEnd runs when the execution is over, whichever way it ended (judged, pruned, engine error).
	AtEnd []func()
	// Pending calls: call id -> description, removed on return (deadlock reports)
	Pending map[int]string
}

func (x *X) obs(o Obs) {
	o.Seq = len(x.Log)
	o.Step = x.S.Steps
	o.Thread = vsched.CurName()
	x.Log = append(x.Log, o)
	vsched.Observe(o.Kind, o.What, o.Arg, o.Err, o.Name, o.Op, o.From, o.List, o.W)
	x.S.Note(o.Kind + " " + o.What + " " + o.Arg + " " + o.Err + " " + o.Name + fmt.Sprint(o.Op, o.List))
}

func ErrClass(err error) string {
	switch {
	case err == nil:
		return ""
	case errors.Is(err, fsnotify.ErrNonExistentWatch):
		return "ErrNonExistentWatch"
	case errors.Is(err, fsnotify.ErrClosed):
		return "ErrClosed"
	case errors.Is(err, fsnotify.ErrEventOverflow):
		return "ErrEventOverflow"
	case errors.Is(err, syscall.ENOENT):
		return "ENOENT"
	case errors.Is(err, syscall.ENOTDIR):
		return "ENOTDIR"
	case errors.Is(err, syscall.ELOOP):
		return "ELOOP"
	case errors.Is(err, syscall.ENAMETOOLONG):
		return "ENAMETOOLONG"
	case errors.Is(err, syscall.EINVAL):
		return "EINVAL"
	case errors.Is(err, syscall.EBADF):
		return "EBADF"
	case errors.Is(err, syscall.EMFILE):
		return "EMFILE"
	case errors.Is(err, syscall.ENOSPC):
		return "ENOSPC"
	case errors.Is(err, vsys.ErrInjected):
		return "injected"
	}
	return "other:" + err.Error()
}

// ---- watcher API wrappers: call and return are both observations ----

func (x *X) NewWatcher(buf int) (*fsnotify.Watcher, error) {
	var w *fsnotify.Watcher
	var err error
	if buf < 0 {
		w, err = fsnotify.NewWatcher()
	} else {
		w, err = fsnotify.NewBufferedWatcher(uint(buf))
	}
	idx := -1
	if err == nil {
		idx = len(x.Watchers)
		x.Watchers = append(x.Watchers, w)
		vsched.RegisterTree(w, fmt.Sprintf("W%d", idx)) // stable names for every mutex and channel of this Watcher
		vsched.NameChan(w.Events, fmt.Sprintf("Events%d", idx))
		vsched.NameChan(w.Errors, fmt.Sprintf("Errors%d", idx))
		// the notification descriptor must not be inheritable: a child process started while the Watcher is
		// open would otherwise keep the instance and all its kernel watches alive after Close (C13)
		if fds := vsys.Get().Fds; len(fds) > 0 {
			if fl, e := unix.FcntlInt(uintptr(fds[len(fds)-1]), unix.F_GETFD, 0); e == nil && fl&unix.FD_CLOEXEC == 0 {
				x.obs(Obs{Kind: "note", What: "inheritable-descriptor", Arg: "the inotify descriptor is not close-on-exec"})
			}
		}
	}
	x.obs(Obs{Kind: "ret", What: "NewWatcher", Arg: fmt.Sprint(buf), Err: ErrClass(err), W: idx})
	return w, err
}

func (x *X) widx(w *fsnotify.Watcher) int {
	for i, ww := range x.Watchers {
		if ww == w {
			return i
		}
	}
	return -1
}

func (x *X) call(w *fsnotify.Watcher, what, arg string) int {
	// no scheduling point of its own: the first synchronisation operation
	// inside the call is one, and nothing happens in between
	x.callSeq++
	id := x.callSeq
	x.Pending[id] = fmt.Sprintf("%s(%q) by %s", what, arg, vsched.CurName())
	x.obs(Obs{Kind: "call", What: what, Arg: arg, W: x.widx(w), CallID: id})
	return id
}

func (x *X) ret(w *fsnotify.Watcher, id int, what, arg string, err error, list []string) {
	delete(x.Pending, id)
	x.obs(Obs{Kind: "ret", What: what, Arg: arg, Err: ErrClass(err), W: x.widx(w), CallID: id, List: list})
}

func (x *X) Add(w *fsnotify.Watcher, p string) error {
	id := x.call(w, "Add", p)
	err := w.Add(p)
	x.ret(w, id, "Add", p, err, nil)
	return err
}

// AddOps is AddWith(p, <ops>) through the verif hook (the option is not exported yet).
func (x *X) AddOps(w *fsnotify.Watcher, p string, ops uint32) error {
	id := x.call(w, "Add", p)
	err := w.AddWith(p, fsnotify.VerifWithOps(fsnotify.Op(ops)))
	x.ret(w, id, "Add", p, err, nil)
	return err
}

func (x *X) Remove(w *fsnotify.Watcher, p string) error {
	id := x.call(w, "Remove", p)
	err := w.Remove(p)
	x.ret(w, id, "Remove", p, err, nil)
	return err
}

func (x *X) WatchList(w *fsnotify.Watcher) []string {
	id := x.call(w, "WatchList", "")
	l := w.WatchList()
	var cp []string
	if l != nil {
		cp = append([]string{}, l...)
		sort.Strings(cp)
	}
	x.ret(w, id, "WatchList", "", nil, cp)
	if l == nil {
		x.Log[len(x.Log)-1].Err = "nil-list"
	}
	return l
}

func (x *X) Close(w *fsnotify.Watcher) error {
	id := x.call(w, "Close", "")
	err := w.Close()
	x.ret(w, id, "Close", "", err, nil)
	return err
}

// ---- consumers ----

type ConsumerMode struct {
	Events    bool
	Errors    bool
	StopAfter int // >0: the consumer goes away after this many receives
}

// Consume starts a thread receiving from the chosen channels until they are closed.
func (x *X) Consume(w *fsnotify.Watcher, name string, m ConsumerMode) *vsched.Thread {
	wi := x.widx(w)
	var t *vsched.Thread
	defer func() { t.NoShared = true }() // only channel operations: never looks at shared memory
	t = vsched.GoNamed(name, func() {
		evOpen, erOpen := m.Events, m.Errors
		n := 0
		for evOpen || erOpen {
			if m.StopAfter > 0 && n >= m.StopAfter {
				x.obs(Obs{Kind: "note", What: "consumer-stops", W: wi})
				return
			}
			var cases []vsched.Case
			var kinds []int
			if evOpen {
				cases = append(cases, vsched.CaseRecv(w.Events))
				kinds = append(kinds, 0)
			}
			if erOpen {
				cases = append(cases, vsched.CaseRecv(w.Errors))
				kinds = append(kinds, 1)
			}
			i, v, ok := vsched.Select(false, cases...)
			n++
			switch kinds[i] {
			case 0:
				if !ok {
					evOpen = false
					x.obs(Obs{Kind: "events-closed", W: wi})
					continue
				}
				e := vsched.SelVal(w.Events, v)
				x.obs(Obs{Kind: "event", Name: e.Name, Op: uint32(e.Op), From: fsnotify.VerifRenamedFrom(e), W: wi, What: e.String()})
			case 1:
				if !ok {
					erOpen = false
					x.obs(Obs{Kind: "errors-closed", W: wi})
					continue
				}
				err := vsched.SelVal(w.Errors, v)
				x.obs(Obs{Kind: "error", Err: ErrClass(err), W: wi, What: fmt.Sprint(err)})
			}
		}
	})
	return t
}

// ---- filesystem operations: each one scheduling point, then the real syscalls ----

func (x *X) fs(what, arg string, err error) error {
	x.fsOps++
	vsys.Get().NoteKernelOp("fs " + what + " " + arg + " " + ErrClass(err))
	x.obs(Obs{Kind: "fs", What: what, Arg: arg, Err: ErrClass(err)})
	return err
}

func (x *X) Touch(p string) error {
	vsched.Step("touch " + p)
	fd, err := unix.Open(p, unix.O_WRONLY|unix.O_CREAT|unix.O_EXCL|unix.O_CLOEXEC, 0o644)
	if err == nil {
		unix.Close(fd)
	}
	return x.fs("touch", p, err)
}

func (x *X) Write(p string, data string) error {
	vsched.Step("write " + p)
	fd, err := unix.Open(p, unix.O_WRONLY|unix.O_APPEND|unix.O_CLOEXEC, 0)
	if err == nil {
		_, err = unix.Write(fd, []byte(data))
		unix.Close(fd)
	}
	return x.fs("write", p, err)
}

func (x *X) Truncate(p string) error {
	vsched.Step("truncate " + p)
	return x.fs("truncate", p, unix.Truncate(p, 0))
}

func (x *X) Chmod(p string, mode uint32) error {
	vsched.Step("chmod " + p)
	return x.fs("chmod", p, unix.Chmod(p, mode))
}

func (x *X) Rm(p string) error {
	vsched.Step("rm " + p)
	return x.fs("rm", p, unix.Unlink(p))
}

func (x *X) Mkdir(p string) error {
	vsched.Step("mkdir " + p)
	return x.fs("mkdir", p, unix.Mkdir(p, 0o755))
}

func (x *X) Rmdir(p string) error {
	vsched.Step("rmdir " + p)
	return x.fs("rmdir", p, unix.Rmdir(p))
}

func (x *X) Mv(a, b string) error {
	vsched.Step("mv " + a + " " + b)
	return x.fs("mv", a+" "+b, unix.Rename(a, b))
}

func (x *X) Ln(a, b string) error {
	vsched.Step("ln " + a + " " + b)
	return x.fs("ln", a+" "+b, unix.Link(a, b))
}

func (x *X) Symlink(target, link string) error {
	vsched.Step("ln -s " + target + " " + link)
	return x.fs("symlink", target+" "+link, unix.Symlink(target, link))
}

func (x *X) Mkfifo(p string) error {
	vsched.Step("mkfifo " + p)
	return x.fs("mkfifo", p, unix.Mkfifo(p, 0o644))
}

func (x *X) RmAll(p string) error {
	vsched.Step("rm -r " + p)
	return x.fs("rm-r", p, os.RemoveAll(p))
}

// OpenFd opens p read-only and keeps the descriptor under a label.
func (x *X) OpenFd(label, p string) error {
	vsched.Step("open " + p)
	if _, dup := x.fds[label]; dup {
		return x.fs("open", p, syscall.EBUSY) // one descriptor per label: keeps the state space finite
	}
	fd, err := unix.Open(p, unix.O_RDONLY|unix.O_CLOEXEC, 0)
	if err == nil {
		x.fds[label] = fd
	}
	return x.fs("open", p, err)
}

func (x *X) CloseFd(label string) error {
	vsched.Step("closefd " + label)
	fd, ok := x.fds[label]
	if !ok {
		return x.fs("closefd", label, syscall.EBADF)
	}
	delete(x.fds, label)
	return x.fs("closefd", label, unix.Close(fd))
}

// Rec is one crafted inotify_event record.
type Rec struct {
	Wd     int32
	Mask   uint32
	Cookie uint32
	Name   string
}

func (r Rec) bytes() []byte {
	nl := 0
	if r.Name != "" {
		nl = (len(r.Name) + 1 + 15) &^ 15 // NUL-terminated, padded to 16 like the kernel does
	}
	b := make([]byte, 16+nl)
	le := func(off int, v uint32) {
		b[off], b[off+1], b[off+2], b[off+3] = byte(v), byte(v>>8), byte(v>>16), byte(v>>24)
	}
	le(0, uint32(r.Wd))
	le(4, r.Mask)
	le(8, r.Cookie)
	le(12, uint32(nl))
	copy(b[16:], r.Name)
	return b
}

// SubstitutePipe replaces the file the reader reads from by a pipe whose
// write end the harness keeps; must be called right after NewWatcher (before
// the reader thread has run). The real inotify descriptor stays open (Add and
// Remove keep working on it) and is released by the harness.
func (x *X) SubstitutePipe(w *fsnotify.Watcher) {
	var p [2]int
	mustNil(unix.Pipe2(p[:], unix.O_NONBLOCK|unix.O_CLOEXEC))
	rf := os.NewFile(uintptr(p[0]), "injected-inotify")
	vsys.RegisterPipe(rf, p[0])
	old := fsnotify.VerifSetInotifyFile(w, rf)
	if old == nil {
		panic(vsched.EngineError{Msg: "cannot substitute the inotify file: the back end has no field inotifyFile any more"})
	}
	vsys.Disown(old)
	x.fds[fmt.Sprintf("pipe-w%d", x.widx(w))] = p[1]
}

// Inject writes crafted records into the substituted pipe in one write
// (= one batch for the reader, unless it is behind).
func (x *X) Inject(w *fsnotify.Watcher, recs ...Rec) {
	vsched.Step(fmt.Sprintf("inject %d records", len(recs)))
	var b []byte
	var desc []string
	for _, r := range recs {
		b = append(b, r.bytes()...)
		desc = append(desc, fmt.Sprintf("wd%d:%#x:%s", r.Wd, r.Mask, r.Name))
	}
	_, err := unix.Write(x.fds[fmt.Sprintf("pipe-w%d", x.widx(w))], b)
	x.fs("inject", strings.Join(desc, ","), err)
}

// Quiesce lets every other thread run until none is enabled.
func (x *X) Quiesce() { vsched.WaitIdle() }

func (x *X) Note(s string) { x.obs(Obs{Kind: "note", What: s}) }

// cleanup releases what the harness itself holds.
func (x *X) cleanup() {
	for _, fd := range x.fds {
		unix.Close(fd)
	}
	for _, f := range x.AtEnd {
		f()
	}
}

// P returns the path of an entry of the per-execution directory, relative to cwd.
func (x *X) P(elem ...string) string {
	return filepath.Join(append([]string{"w"}, elem...)...)
}

// Abs returns the absolute version.
func (x *X) Abs(elem ...string) string {
	return filepath.Join(append([]string{x.Root}, elem...)...)
}

// InotifyFdsOpen counts anon_inode:inotify descriptors of this process.
func InotifyFdsOpen() (n int, list []string) {
	ents, err := os.ReadDir("/proc/self/fd")
	if err != nil {
		return -1, nil
	}
	for _, e := range ents {
		t, err := os.Readlink("/proc/self/fd/" + e.Name())
		if err == nil && strings.Contains(t, "inotify") {
			n++
			list = append(list, e.Name())
		}
	}
	return n, list
}

// ---- exported helpers for harnesses of other back ends (kharness) ----

// Record appends an observation.
func (x *X) Record(o Obs) { x.obs(o) }

// BeginCall notes the start of an API call that may block.
func (x *X) BeginCall(what, arg string, w int) int {
	x.callSeq++
	id := x.callSeq
	x.Pending[id] = fmt.Sprintf("%s(%q) by %s", what, arg, vsched.CurName())
	x.obs(Obs{Kind: "call", What: what, Arg: arg, W: w, CallID: id})
	return id
}

// EndCall notes its return.
func (x *X) EndCall(id int, what, arg string, w int, err string, list []string) {
	delete(x.Pending, id)
	x.obs(Obs{Kind: "ret", What: what, Arg: arg, Err: err, W: w, CallID: id, List: list})
}

// FS notes a filesystem operation of the harness.
func (x *X) FS(what, arg string, err error) { x.fs(what, arg, err) }

// StateKey is the harness's part of the global state key: kernel queue lengths
// and closed-ness of every inotify descriptor of this execution, fault-script
// progress, the library's tables, the harness's own descriptors.
func (x *X) StateKey() string {
	var b strings.Builder
	vs := vsys.Get()
	b.WriteString(vs.KeyPart())
	b.WriteString(x.tablesKey())
	var ls []string
	for l := range x.fds {
		ls = append(ls, l)
	}
	sort.Strings(ls)
	b.WriteString(strings.Join(ls, ","))
	if x.KeyExtra != nil {
		e := x.KeyExtra()
		if e == "" {
			return ""
		}
		b.WriteString("|" + e)
	}
	return b.String()
}

// SharedDigest is the memory threads can read without going through the scheduler: the library's tables
// (every Watcher's, plus the family's own via SharedExtra). What the code under test reads from the
// filesystem is observed call by call instead (vsys syscalls, vsched.OsLstat/OsReadDir/OsReadlink).
func (x *X) SharedDigest() string {
	e := ""
	if x.SharedExtra != nil {
		e = x.SharedExtra()
	}
	return x.tablesKey() + "|" + e
}

func (x *X) tablesKey() string {
	var b strings.Builder
	for i, w := range x.Watchers {
		t := fsnotify.VerifTables(w, false)
		var ents []string
		for k, v := range t.Wd {
			ents = append(ents, fmt.Sprintf("%d={%d %q %#x}", k, v.Wd, v.Path, v.Flags))
		}
		for p, wd := range t.Path {
			ents = append(ents, fmt.Sprintf("%q->%d", p, wd))
		}
		sort.Strings(ents)
		fmt.Fprintf(&b, "W%d[%s]ring%v/%d;", i, strings.Join(ents, " "), ringShape(t), t.CookieIndex)
	}
	return b.String()
}

// ringShape renders the cookie ring with cookies replaced by their rank (only equality matters).
func ringShape(t fsnotify.VerifTablesSnapshot) []string {
	rank := map[uint32]int{}
	var out []string
	for _, c := range t.Cookies {
		if c.Cookie == 0 && c.Path == "" {
			out = append(out, "-")
			continue
		}
		r, ok := rank[c.Cookie]
		if !ok {
			r = len(rank)
			rank[c.Cookie] = r
		}
		out = append(out, fmt.Sprintf("%d:%s", r, c.Path))
	}
	return out
}
