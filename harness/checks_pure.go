package harness

import (
	"encoding/json"
	"fmt"
	"os"
	"os/exec"
	"time"

	"verif/engine/dr"
)

// The pure-function checks (E4) run in cmd/vpure, built against the
// uninstrumented package and the sources extracted by vxgen.
func pureDirect(prop string) func(tier string, deadline time.Time) *DirectResult {
	return func(tier string, deadline time.Time) *DirectResult {
		bin := os.Getenv("VPURE_BIN")
		if bin == "" {
			return &DirectResult{EngineErr: "VPURE_BIN not set (run through ./vcheck)"}
		}
		cmd := exec.Command(bin, prop, tier, fmt.Sprint(deadline.Unix()))
		cmd.Stderr = os.Stderr
		out, err := cmd.Output()
		if err != nil {
			return &DirectResult{EngineErr: "vpure failed: " + err.Error()}
		}
		var r dr.Result
		if err := json.Unmarshal(out, &r); err != nil {
			return &DirectResult{EngineErr: "vpure output: " + err.Error()}
		}
		d := &DirectResult{States: r.States, Transitions: r.Transitions, Traces: r.Traces, Exhaustive: r.Exhaustive,
			Samples: r.Samples, Extra: r.Extra, EngineErr: r.EngineErr}
		for _, v := range r.Violations {
			d.Violations = append(d.Violations, Violation{Property: v.Property, Scenario: v.Scenario, Params: v.Params, Signature: v.Signature, Detail: v.Detail})
		}
		return d
	}
}

func pureReplay(v *Violation) int {
	// re-run the whole (fast, exhaustive) enumeration and look for the same signature
	r := pureDirect(v.Property)("quick", time.Now().Add(5*time.Minute))
	if r.EngineErr != "" {
		fmt.Println("ENGINE-ERROR:", r.EngineErr)
		return 2
	}
	for _, rv := range r.Violations {
		fmt.Printf("violation: property=%s signature=%q\n  %s\n", rv.Property, rv.Signature, rv.Detail)
		if rv.Signature == v.Signature {
			fmt.Printf("VIOLATION property=%s replay=(re-enumerated)\n", v.Property)
			return 1
		}
	}
	fmt.Println("replay: the recorded violation did not occur on this tree")
	return 0
}

// c15Jobs: the translation and the subscription in non-initial states (E2). A directory and entries of
// it are watched with every pair of operation sets out of {each single portable operation, the default
// set, Create|Remove, Write|Chmod}, requests are repeated with other sets, and each kind of change is made;
// oracle: the sequential reference (every record the kernel produced for what was subscribed becomes its
// documented operation) and "kernel mask = flags for everything requested for that watch".
func c15Jobs(tier string) []Job {
	sets := []string{"1", "2", "4", "8", "10", "1f", "5", "12"}
	var hs [][]string
	var vars []map[string]any
	fsops := [][]string{
		{"write w/d/a", "chmod w/d/a", "mv w/d/a w/d/c", "touch w/d/a", "rm w/d/c"},
		{"rm w/d/a ;; touch w/d/a", "mv w/o/p w/d/p", "mv w/d/b w/o/b", "write w/d/p"},
		{"mv w/d/s w/d/t", "touch w/d/t/y", "rmr w/d/t", "mkdir w/d/s"},
	}
	for _, P := range sets {
		for _, Q := range sets {
			for _, f := range fsops {
				hs = append(hs, f)
				vars = append(vars, map[string]any{"init": []string{"AW w/d " + P, "AW w/d/a " + Q, "AW w/d/s " + Q}})
			}
			if tier == "thorough" || P <= Q {
				// repeated requests for one path (non-initial states of the subscription), then changes
				hs = append(hs, []string{"AW w/d " + Q, "write w/d/a ;; chmod w/d/a", "AW w/d " + P, "touch w/d/n", "mv w/d/n w/d/n2", "rm w/d/n2", "R w/d", "AW w/d " + Q, "touch w/d/n ;; write w/d/n ;; rm w/d/n"})
				vars = append(vars, map[string]any{"init": []string{"AW w/d " + P, "AW w/f " + Q}})
			}
		}
	}
	jobs := chunk(map[string]any{"fix": "std", "tag15": "true"}, hs, vars, 8)
	// a watched entry renamed and then deleted before the reader handles the first record (the clean-up of the
	// IN_MOVE_SELF then meets a watch the kernel already dropped): move-of-self still is a Rename
	var bh [][]string
	var bv []map[string]any
	for _, Q := range sets {
		bh = append(bh, []string{"mv w/d/a w/d/c ;; rm w/d/c", "touch w/d/a"}, []string{"mv w/d/s w/o/s2 ;; rmr w/o/s2", "mkdir w/d/s"}, []string{"chmod w/d/b ;; mv w/d/a w/o/a2 ;; rm w/o/a2"})
		for i := 0; i < 3; i++ {
			bv = append(bv, map[string]any{"init": []string{"AW w/d/a " + Q, "AW w/d/s " + Q, "AW w/d/b 10"}})
		}
	}
	jobs = append(jobs, chunk(map[string]any{"fix": "std", "tag15": "true"}, bh, bv, 8)...)
	// E1: two callers requesting different sets for the same path at the same time, every interleaving up to the bound
	single := []string{"1", "2", "4", "8", "10"}
	bound := 2
	for _, pth := range []string{"w/f", "w/d"} {
		for i, a := range single {
			for _, b := range single[i+1:] {
				for _, in := range [][]string{{}, {"AW " + pth + " 1f"}, {"AW " + pth + " " + a}} {
					if tier != "thorough" && pth == "w/d" && len(in) > 0 {
						continue
					}
					jobs = append(jobs, Job{Family: "opsconc", Bound: bound, Params: map[string]any{"init": in, "t1": []string{"AW " + pth + " " + a}, "t2": []string{"AW " + pth + " " + b}}})
				}
			}
		}
	}
	return jobs
}

func init() {
	Checks["C15"] = &CheckDef{Prop: "C15", Direct: pureDirect("C15"), Jobs: c15Jobs,
		Technique: "exhaustive enumeration of the complete finite input domain of each translation table against an independent reference table (all 2^16 inotify masks, 2^11x2 kqueue fflags, 2^13 Windows masks, all actions, all 2^9 op subsets x follow/no-follow with the kernel-side mask read back from fdinfo, every ordered triple of request sets for one path) plus E2 histories over watches with explicit operation sets in non-initial states",
		Rule:      "E4: a state is one input (native mask / requested op set / action code); a transition is one evaluation of the real function (inotify: through the verif hook and a real AddWith on the real kernel; kqueue: the full transplant of that back end, verif/gen/kq; Windows, FEN: function source extracted from the working tree by vxgen)",
		Assume:    []string{"kqueue/Windows constants taken from golang.org/x/sys v0.13.0", "reference tables written from the documentation of Op (fsnotify.go) and inotify(7)"}}
	Checks["C16"] = &CheckDef{Prop: "C16", Direct: pureDirect("C16"),
		Technique: "exhaustive enumeration of Op.Has/Event.Has over the stated Op domain squared, Op.String over all 2^16 low values plus every defined subset x every high bit, Event.String over a name x old-name x op product, against an independent reference",
		Rule:      "E4: a state is one input tuple; a transition is one evaluation of the real method",
		Assume:    []string{"quick: Has over 2^9 defined-bit values plus single undefined bits and all-ones patterns (squared); thorough: all 2^16 x 2^16 pairs"}}
	Checks["C20"] = &CheckDef{Prop: "C20", Direct: pureDirect("C20"),
		Technique: "exhaustive enumeration of all pairs of line sequences over a small alphabet up to a length bound (and all <=2-edit neighbours of longer two-letter sequences); oracle = parse the unified diff, check headers against bodies, apply it to the first text and compare with the second",
		Rule:      "E4: a state is one (text, text) or (template, text) pair; a transition is one call of the real Diff/DiffMatch (source copied from the working tree)",
		Assume:    []string{"diff.go copied verbatim from the working tree into a scratch package"}}
	for _, p := range []string{"C15", "C16", "C20"} {
		DirectReplays[p] = pureReplay
	}
}
