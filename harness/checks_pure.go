package harness

import (
	"encoding/json"
	"fmt"
	"os"
	"os/exec"
	"time"

	"verif/engine/dr"
)

// The pure-function checks (E4) run in cmd/vpure, built against the
// uninstrumented package and the sources extracted by vxgen.
func pureDirect(prop string) func(tier string, deadline time.Time) *DirectResult {
	return func(tier string, deadline time.Time) *DirectResult {
		bin := os.Getenv("VPURE_BIN")
		if bin == "" {
			return &DirectResult{EngineErr: "VPURE_BIN not set (run through ./vcheck)"}
		}
		cmd := exec.Command(bin, prop, tier, fmt.Sprint(deadline.Unix()))
		cmd.Stderr = os.Stderr
		out, err := cmd.Output()
		if err != nil {
			return &DirectResult{EngineErr: "vpure failed: " + err.Error()}
		}
		var r dr.Result
		if err := json.Unmarshal(out, &r); err != nil {
			return &DirectResult{EngineErr: "vpure output: " + err.Error()}
		}
		d := &DirectResult{States: r.States, Transitions: r.Transitions, Traces: r.Traces, Exhaustive: r.Exhaustive,
			Samples: r.Samples, Extra: r.Extra, EngineErr: r.EngineErr}
		for _, v := range r.Violations {
			d.Violations = append(d.Violations, Violation{Property: v.Property, Scenario: v.Scenario, Params: v.Params, Signature: v.Signature, Detail: v.Detail})
		}
		return d
	}
}

func pureReplay(v *Violation) int {
	// re-run the whole (fast, exhaustive) enumeration and look for the same signature
	r := pureDirect(v.Property)("quick", time.Now().Add(5*time.Minute))
	if r.EngineErr != "" {
		fmt.Println("ENGINE-ERROR:", r.EngineErr)
		return 2
	}
	for _, rv := range r.Violations {
		fmt.Printf("violation: property=%s signature=%q\n  %s\n", rv.Property, rv.Signature, rv.Detail)
		if rv.Signature == v.Signature {
			fmt.Printf("VIOLATION property=%s replay=(re-enumerated)\n", v.Property)
			return 1
		}
	}
	fmt.Println("replay: the recorded violation did not occur on this tree")
	return 0
}

func init() {
	Checks["C15"] = &CheckDef{Prop: "C15", Direct: pureDirect("C15"),
		Technique: "exhaustive enumeration of the complete finite input domain of each translation table against an independent reference table (all 2^16 inotify masks, 2^11x2 kqueue fflags, 2^13 Windows masks, all actions, all 2^9 op subsets x follow/no-follow with the kernel-side mask read back from fdinfo)",
		Rule:      "E4: a state is one input (native mask / requested op set / action code); a transition is one evaluation of the real function (inotify: through the verif hook and a real AddWith on the real kernel; kqueue: the full transplant of that back end, verif/gen/kq; Windows, FEN: function source extracted from the working tree by vxgen)",
		Assume:    []string{"kqueue/Windows constants taken from golang.org/x/sys v0.13.0", "reference tables written from the documentation of Op (fsnotify.go) and inotify(7)"}}
	Checks["C16"] = &CheckDef{Prop: "C16", Direct: pureDirect("C16"),
		Technique: "exhaustive enumeration of Op.Has/Event.Has over the stated Op domain squared, Op.String over all 2^16 low values plus every defined subset x every high bit, Event.String over a name x old-name x op product, against an independent reference",
		Rule:      "E4: a state is one input tuple; a transition is one evaluation of the real method",
		Assume:    []string{"quick: Has over 2^9 defined-bit values plus single undefined bits and all-ones patterns (squared); thorough: all 2^16 x 2^16 pairs"}}
	Checks["C20"] = &CheckDef{Prop: "C20", Direct: pureDirect("C20"),
		Technique: "exhaustive enumeration of all pairs of line sequences over a small alphabet up to a length bound (and all <=2-edit neighbours of longer two-letter sequences); oracle = parse the unified diff, check headers against bodies, apply it to the first text and compare with the second",
		Rule:      "E4: a state is one (text, text) or (template, text) pair; a transition is one call of the real Diff/DiffMatch (source copied from the working tree)",
		Assume:    []string{"diff.go copied verbatim from the working tree into a scratch package"}}
	for _, p := range []string{"C15", "C16", "C20"} {
		DirectReplays[p] = pureReplay
	}
}
