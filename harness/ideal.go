package harness

import (
	"fmt"
	"os"
	"path/filepath"
	"sort"
	"strings"
	"syscall"

	"verif/engine/vsys"
)

// The reference model ("ideal library") for one Watcher on the inotify back
// end. It is fed only with things that do not pass through library code: the
// arguments and results of the API calls, the inotify syscalls seen at the
// seam (path, mask -> wd), the raw bytes the kernel returned to each read, and
// stat() results. It is deliberately boring: two maps and a cookie map.

const (
	inACCESS, inMODIFY, inATTRIB, inCLOSEWRITE, inCLOSENOWRITE, inOPEN   = 0x1, 0x2, 0x4, 0x8, 0x10, 0x20
	inMOVEDFROM, inMOVEDTO, inCREATE, inDELETE, inDELETESELF, inMOVESELF = 0x40, 0x80, 0x100, 0x200, 0x400, 0x800
	inUNMOUNT, inQOVERFLOW, inIGNORED, inISDIR                           = 0x2000, 0x4000, 0x8000, 0x40000000
	inDONTFOLLOW, inMASKADD                                              = 0x02000000, 0x20000000
)

const (
	opCreate = 1 << iota
	opWrite
	opRemove
	opRename
	opChmod
)

func refOps(mask uint32) uint32 {
	var o uint32
	if mask&(inCREATE|inMOVEDTO) != 0 {
		o |= opCreate
	}
	if mask&(inDELETE|inDELETESELF) != 0 {
		o |= opRemove
	}
	if mask&inMODIFY != 0 {
		o |= opWrite
	}
	if mask&(inMOVEDFROM|inMOVESELF) != 0 {
		o |= opRename
	}
	if mask&inATTRIB != 0 {
		o |= opChmod
	}
	if mask&inOPEN != 0 {
		o |= 32
	}
	if mask&inACCESS != 0 {
		o |= 64
	}
	if mask&inCLOSEWRITE != 0 {
		o |= 128
	}
	if mask&inCLOSENOWRITE != 0 {
		o |= 256
	}
	return o
}

type RawRec struct {
	Wd     int32
	Mask   uint32
	Cookie uint32
	Name   string
	Pos    int64 // byte offset of the record in this descriptor's stream
}

func (r RawRec) String() string {
	return fmt.Sprintf("{wd=%d mask=%#x cookie=%d name=%q}", r.Wd, r.Mask, r.Cookie, r.Name)
}

// ParseRecords decodes a read buffer the way inotify(7) specifies.
func ParseRecords(b []byte, base int64) ([]RawRec, string) {
	var out []RawRec
	off := 0
	le := func(o int) uint32 { return uint32(b[o]) | uint32(b[o+1])<<8 | uint32(b[o+2])<<16 | uint32(b[o+3])<<24 }
	for off+16 <= len(b) {
		r := RawRec{Wd: int32(le(off)), Mask: le(off + 4), Cookie: le(off + 8), Pos: base + int64(off)}
		n := int(le(off + 12))
		if off+16+n > len(b) {
			return out, "truncated record"
		}
		name := b[off+16 : off+16+n]
		if i := indexByte(name, 0); i >= 0 {
			name = name[:i]
		}
		r.Name = string(name)
		out = append(out, r)
		off += 16 + n
	}
	if off != len(b) {
		return out, "trailing bytes"
	}
	return out, ""
}

func indexByte(b []byte, c byte) int {
	for i, x := range b {
		if x == c {
			return i
		}
	}
	return -1
}

type Entry struct {
	Spelling string
	Wd       int
	Ino      uint64
	Since    int64 // stream position when the Add that attached this watch to this descriptor returned
}

type retiredWd struct {
	e   *Entry
	pos int64 // stream position when the API call that retired it returned
}

// Expect is what the model says about one raw record.
type Expect struct {
	Kind string // must, may, mustnot, none (housekeeping), error (ErrEventOverflow on Errors)
	Name string
	Op   uint32
	From string
	// AltFrom: the MOVED_FROM half of this move was itself optional (its watch was
	// being removed), so the Create may or may not carry the old name
	AltFrom string
	HasAlt  bool
	Rec     RawRec
}

type Ideal struct {
	byWd       map[int]*Entry
	bySpelling map[string]*Entry
	retired    map[int]retiredWd
	cookies    map[uint32]string
	mayCookies map[uint32]string // cookies of MOVED_FROM records whose delivery was optional
	wdIno      map[int]uint64
	CustomOps  bool      // watches were added with a non-default operation set
	Problems   []Problem // API-level disagreements found while feeding the model
	ExpRm      []int     // kernel watches the model expects to have been released
}

// Problem is one disagreement between library and model, with the category
// that decides which property it belongs to.
type Problem struct {
	Cat    string // lost, phantom, order, name, from, zero-op, watchlist, errclass, state-changed, tables, marks, errors-chan, panic
	Sig    string
	Detail string
}

func NewIdeal() *Ideal {
	return &Ideal{byWd: map[int]*Entry{}, bySpelling: map[string]*Entry{}, retired: map[int]retiredWd{}, cookies: map[uint32]string{}, mayCookies: map[uint32]string{}, wdIno: map[int]uint64{}}
}

func (m *Ideal) problem(cat, sig, detail string) {
	m.Problems = append(m.Problems, Problem{cat, sig, detail})
}

func statIno(p string, follow bool) (uint64, error) {
	var st syscall.Stat_t
	var err error
	if follow {
		err = syscall.Stat(p, &st)
	} else {
		err = syscall.Lstat(p, &st)
	}
	return st.Ino, err
}

// Add feeds one Add call: argument, result, and the syscalls it made.
func (m *Ideal) Add(p string, got error, calls []vsys.Call, pos int64) {
	// the cleaned spelling is what counts (C04/C08: "./", "//", "..", trailing
	// slash are equivalent spellings), so resolvability is judged on it
	cp := filepath.Clean(p)
	ino, serr := statIno(cp, true)
	if serr != nil {
		if got == nil {
			m.problem("errclass", "Add of an unresolvable path succeeded", fmt.Sprintf("Add(%q) = nil although stat says %v", p, serr))
		} else if ErrClass(got) != ErrClass(serr) {
			m.problem("errclass", "Add failed with the wrong error class", fmt.Sprintf("Add(%q) = %v, stat says %v", p, got, serr))
		}
		return
	}
	if got != nil {
		m.problem("errclass", "Add of a resolvable path failed: "+ErrClass(got), fmt.Sprintf("Add(%q) = %v", p, got))
		return
	}
	wd := -1
	for _, c := range calls {
		if c.Kind == "add" && c.Err == "" {
			wd = c.Wd
		}
	}
	if wd < 0 {
		m.problem("marks", "Add returned nil without registering a kernel watch", fmt.Sprintf("Add(%q): syscalls %+v", p, calls))
		if e := m.bySpelling[cp]; e != nil && e.Ino != ino {
			// the listed path names another file by now: the Add that just returned was for that file, so whatever
			// the old file's watch goes on reporting is no longer about this path (C02), and nothing watches the new one
			delete(m.byWd, e.Wd)
			delete(m.bySpelling, cp)
			m.retired[e.Wd] = retiredWd{&Entry{Spelling: e.Spelling, Wd: e.Wd, Ino: e.Ino}, pos}
		}
		return
	}
	m.wdIno[wd] = ino
	delete(m.retired, wd) // the kernel handed this number out afresh (only happens after IN_IGNORED)
	if e := m.bySpelling[cp]; e != nil {
		if e.Wd == wd {
			return // same file: no-op
		}
		// the listed path now names another file: the watch moves, the old one is released
		old := e.Wd
		delete(m.byWd, old)
		m.retired[old] = retiredWd{&Entry{Spelling: e.Spelling, Wd: old, Ino: e.Ino}, pos}
		m.ExpRm = append(m.ExpRm, old)
		if other := m.byWd[wd]; other != nil {
			delete(m.bySpelling, cp) // that file is already listed under its first spelling
			return
		}
		e.Wd, e.Ino, e.Since = wd, ino, pos
		m.byWd[wd] = e
		return
	}
	if m.byWd[wd] != nil {
		return // another name of a file that is already listed: first spelling wins
	}
	e := &Entry{Spelling: cp, Wd: wd, Ino: ino, Since: pos}
	m.byWd[wd] = e
	m.bySpelling[cp] = e
}

// Remove feeds one Remove call.
func (m *Ideal) Remove(p string, got error, calls []vsys.Call, pos int64) {
	cp := filepath.Clean(p)
	e := m.bySpelling[cp]
	if e == nil {
		if ErrClass(got) != "ErrNonExistentWatch" {
			m.problem("errclass", "Remove of an unlisted path did not report ErrNonExistentWatch", fmt.Sprintf("Remove(%q) = %v; listed: %v", p, got, m.List()))
		}
		return
	}
	delete(m.bySpelling, cp)
	delete(m.byWd, e.Wd)
	m.retired[e.Wd] = retiredWd{e, pos}
	kernelGone := false
	for _, c := range calls {
		if c.Kind == "rm" && c.Err != "" {
			kernelGone = true // the kernel had already dropped the watch (deleted, not yet processed)
		}
	}
	if got != nil && !kernelGone {
		m.problem("errclass", "Remove of a listed path failed: "+ErrClass(got), fmt.Sprintf("Remove(%q) = %v", p, got))
	}
}

func (m *Ideal) List() []string {
	var l []string
	for s := range m.bySpelling {
		l = append(l, s)
	}
	sort.Strings(l)
	return l
}

func (m *Ideal) coversParent(e *Entry) bool {
	dir := filepath.Dir(e.Spelling)
	if _, ok := m.bySpelling[dir]; ok {
		return true
	}
	if ino, err := statIno(dir, true); err == nil {
		for _, o := range m.byWd {
			if o.Ino == ino {
				return true
			}
		}
	}
	return false
}

// Record feeds one raw kernel record and says what must happen with it.
func (m *Ideal) Record(r RawRec) Expect {
	if r.Mask&inQOVERFLOW != 0 {
		return Expect{Kind: "error", Rec: r}
	}
	e := m.byWd[int(r.Wd)]
	if e == nil {
		x := Expect{Kind: "mustnot", Rec: r}
		if rt, ok := m.retired[int(r.Wd)]; ok {
			if r.Pos < rt.pos && r.Mask&(inIGNORED|inUNMOUNT) == 0 {
				// caused before the Remove / re-Add that retired the watch returned: delivery optional
				x.Kind = "may"
				x.Name = rt.e.Spelling
				if r.Name != "" {
					x.Name += "/" + r.Name
				}
				x.Op = refOps(r.Mask)
				if x.Op == 0 {
					x.Kind = "none"
				}
				if r.Cookie != 0 && r.Mask&inMOVEDFROM != 0 {
					m.mayCookies[r.Cookie] = x.Name
				}
				if r.Cookie != 0 && r.Mask&inMOVEDTO != 0 {
					x.From = m.cookies[r.Cookie]
					if n, ok := m.mayCookies[r.Cookie]; ok && x.From == "" {
						x.AltFrom, x.HasAlt = n, true
					}
				}
			}
			if r.Mask&inIGNORED != 0 {
				delete(m.retired, int(r.Wd))
			}
		}
		if r.Mask&(inIGNORED|inUNMOUNT) != 0 {
			x.Kind = "none"
		}
		return x
	}
	if r.Pos < e.Since && r.Mask&(inIGNORED|inUNMOUNT) == 0 {
		// queued before this watch existed: a kernel watch that outlived its listing (its descriptor number came
		// back from the re-Add) reported a change made while nothing was listed - not this path's business
		return Expect{Kind: "mustnot", Rec: r}
	}
	name := e.Spelling
	if r.Name != "" {
		name += "/" + r.Name
	}
	if r.Mask&(inIGNORED|inUNMOUNT) != 0 {
		delete(m.byWd, e.Wd)
		if m.bySpelling[e.Spelling] == e {
			delete(m.bySpelling, e.Spelling)
		}
		if r.Mask&inIGNORED != 0 && !m.CustomOps {
			// the kernel dropped a watch that is still listed although neither this Watcher
			// removed it nor its file was deleted (that would have come as IN_DELETE_SELF first)
			m.problem("foreign", "a kernel watch of this Watcher was removed by someone else", fmt.Sprintf("unexplained IN_IGNORED for wd %d (%q)", e.Wd, e.Spelling))
		}
		return Expect{Kind: "none", Rec: r}
	}
	kind := "must"
	if r.Mask&(inDELETESELF|inMOVESELF) != 0 {
		delete(m.byWd, e.Wd)
		if m.bySpelling[e.Spelling] == e {
			delete(m.bySpelling, e.Spelling)
		}
		if r.Mask&inMOVESELF != 0 {
			m.ExpRm = append(m.ExpRm, e.Wd)
			// notifications for the moved file that are still queued behind this one must not surface
		}
		if r.Mask&inDELETESELF != 0 && m.coversParent(e) {
			kind = "may"
		}
	}
	x := Expect{Kind: kind, Name: name, Op: refOps(r.Mask), Rec: r}
	if x.Op == 0 {
		x.Kind = "none"
		return x
	}
	if r.Cookie != 0 {
		if r.Mask&inMOVEDFROM != 0 {
			m.cookies[r.Cookie] = name
		} else if r.Mask&inMOVEDTO != 0 {
			x.From = m.cookies[r.Cookie]
			if n, ok := m.mayCookies[r.Cookie]; ok && x.From == "" {
				x.AltFrom, x.HasAlt = n, true
			}
		}
	}
	return x
}

// Got is one event as received by the consumer.
type Got struct {
	Name string
	Op   uint32
	From string
}

func (g Got) String() string { return fmt.Sprintf("%s(%#x)%q<-%q", opText(g.Op), g.Op, g.Name, g.From) }

func opText(o uint32) string {
	var p []string
	for i, n := range []string{"CREATE", "WRITE", "REMOVE", "RENAME", "CHMOD", "OPEN", "READ", "CLOSE_WRITE", "CLOSE_READ"} {
		if o&(1<<i) != 0 {
			p = append(p, n)
		}
	}
	return strings.Join(p, "|")
}

// altOK decides the old name of a Create whose MOVED_FROM half was optional:
// if the Rename of that name was in fact delivered (and not yet claimed by
// another Create) the Create must carry it, otherwise it must carry none.
func altOK(w Expect, got []Got, j int) bool {
	delivered := false
	for k := j - 1; k >= 0; k-- {
		if got[k].Op&opCreate != 0 && got[k].From == w.AltFrom {
			break
		}
		if got[k].Op&opRename != 0 && got[k].Name == w.AltFrom {
			delivered = true
			break
		}
	}
	if delivered {
		return got[j].From == w.AltFrom
	}
	return got[j].From == ""
}

// Align compares the expectation list with what arrived, in order.
func Align(exp []Expect, got []Got) []Problem {
	var out []Problem
	// zero-op events are never legitimate
	for _, g := range got {
		if g.Op == 0 {
			out = append(out, Problem{"zero-op", "event with empty operation set delivered", g.String()})
		}
	}
	var want []Expect
	for _, e := range exp {
		if e.Kind == "must" || e.Kind == "may" {
			want = append(want, e)
		}
	}
	// fast path: nothing optional and identical in order
	if len(want) == len(got) {
		same := true
		for i, w := range want {
			if w.Name != got[i].Name || w.Op != got[i].Op || !w.HasAlt && w.From != got[i].From || w.HasAlt && !altOK(w, got, i) {
				same = false
				break
			}
		}
		if same {
			return out
		}
	}
	// backtracking alignment: every got matches a want in order; skipped wants must be "may"
	var rec func(i, j int) bool
	memo := map[[2]int]bool{}
	rec = func(i, j int) bool {
		if j == len(got) {
			for ; i < len(want); i++ {
				if want[i].Kind == "must" {
					return false
				}
			}
			return true
		}
		if i == len(want) {
			return false
		}
		k := [2]int{i, j}
		if v, ok := memo[k]; ok {
			return v
		}
		w := want[i]
		r := false
		if w.Name == got[j].Name && w.Op == got[j].Op && (!w.HasAlt && w.From == got[j].From || w.HasAlt && altOK(w, got, j)) {
			r = rec(i+1, j+1)
		}
		if !r && w.Kind == "may" {
			r = rec(i+1, j)
		}
		memo[k] = r
		return r
	}
	if rec(0, 0) {
		return out
	}
	// diagnose: which category explains the difference best
	describe := func() string {
		var a, b []string
		for _, w := range want {
			a = append(a, fmt.Sprintf("%s:%s(%#x)%q<-%q", w.Kind, opText(w.Op), w.Op, w.Name, w.From))
		}
		for _, g := range got {
			b = append(b, g.String())
		}
		return fmt.Sprintf("expected %v\n     got %v", a, b)
	}
	key := func(n string, o uint32, f string) string { return fmt.Sprintf("%s\x00%d\x00%s", n, o, f) }
	mustCount, mayCount, gotCount := map[string]int{}, map[string]int{}, map[string]int{}
	for _, w := range want {
		if w.Kind == "must" {
			mustCount[key(w.Name, w.Op, w.From)]++
		} else {
			mayCount[key(w.Name, w.Op, w.From)]++
		}
	}
	for _, g := range got {
		gotCount[key(g.Name, g.Op, g.From)]++
	}
	for _, w := range want {
		if !w.HasAlt {
			continue
		}
		for j := range got {
			if got[j].Name == w.Name && got[j].Op == w.Op && !altOK(w, got, j) {
				out = append(out, Problem{"from", fmt.Sprintf("Create does not carry the old name of the Rename delivered for the same move (or carries one without it): got %q, Rename name %q", got[j].From, w.AltFrom), describe()})
				return out
			}
		}
	}
	// the two halves of one rename arrive adjacent from the kernel: the Create must directly follow its Rename (C03)
	for i := 1; i < len(want); i++ {
		a, b := want[i-1], want[i]
		if a.Kind != "must" || b.Kind != "must" || b.Rec.Cookie == 0 || a.Rec.Cookie != b.Rec.Cookie || a.Rec.Mask&inMOVEDFROM == 0 || b.Rec.Mask&inMOVEDTO == 0 {
			continue
		}
		for j := range got {
			if got[j].Name == b.Name && got[j].Op == b.Op {
				if j == 0 || got[j-1].Name != a.Name || got[j-1].Op != a.Op {
					out = append(out, Problem{"order", "the Create of a rename is not immediately preceded by the Rename of its old name", describe()})
				}
				break
			}
		}
	}
	// unmatched musts and unbacked gots, then pair them up: same operation but
	// another name = misspelling (C08); same name and operation but another old
	// name = wrong rename correlation (C11); the rest is lost / phantom
	type ev struct {
		name string
		op   uint32
		from string
	}
	var lostL, extraL []ev
	for _, w := range want {
		k := key(w.Name, w.Op, w.From)
		if w.Kind == "must" {
			if gotCount[k] > 0 {
				gotCount[k]--
			} else {
				lostL = append(lostL, ev{w.Name, w.Op, w.From})
			}
		}
	}
	for _, w := range want {
		k := key(w.Name, w.Op, w.From)
		if w.Kind == "may" && gotCount[k] > 0 {
			gotCount[k]--
		}
	}
	for _, g := range got {
		k := key(g.Name, g.Op, g.From)
		if gotCount[k] > 0 {
			gotCount[k]--
			extraL = append(extraL, ev{g.Name, g.Op, g.From})
		}
	}
	_ = mustCount
	_ = mayCount
	if len(lostL) == 0 && len(extraL) == 0 {
		out = append(out, Problem{"order", "events delivered in a different order than the kernel reported them", describe()})
		return out
	}
	used := make([]bool, len(extraL))
	var restLost []ev
	for _, l := range lostL {
		paired := false
		for i, e := range extraL {
			if used[i] {
				continue
			}
			if e.name == l.name && e.op == l.op && e.from != l.from {
				out = append(out, Problem{"from", fmt.Sprintf("Create carries the wrong old name: want %q got %q", l.from, e.from), describe()})
				used[i], paired = true, true
				break
			}
		}
		if paired {
			continue
		}
		for i, e := range extraL {
			if used[i] {
				continue
			}
			if e.op == l.op && e.from == l.from && e.name != l.name {
				out = append(out, Problem{"name", fmt.Sprintf("event name misspelled: want %q got %q", short(l.name), short(e.name)), describe()})
				used[i], paired = true, true
				break
			}
		}
		if !paired {
			restLost = append(restLost, l)
		}
	}
	for _, l := range restLost {
		out = append(out, Problem{"lost", fmt.Sprintf("kernel notification not delivered: %s %q", opText(l.op), short(l.name)), describe()})
	}
	for i, e := range extraL {
		if !used[i] {
			out = append(out, Problem{"phantom", fmt.Sprintf("event delivered that no kernel notification backs: %s %q", opText(e.op), short(e.name)), describe()})
		}
	}
	return out
}

var _ = os.Stat

func short(n string) string {
	if len(n) > 40 {
		return fmt.Sprintf("%s...(%d bytes)", n[:24], len(n))
	}
	return n
}
