package harness

import "strings"

func concJobs(tier string) []Job {
	var jobs []Job
	add := func(init []string, t1, t2, fs string, bound int) {
		jobs = append(jobs, Job{Family: "conc", Bound: bound, Params: map[string]any{"init": init, "t1": t1, "t2": t2, "fs": fs}})
	}
	single := []string{"A w/d", "A ./w/d", "R w/d", "R ./w/d", "A w/f", "A w/lf", "R w/f", "R w/lf", "L", "C"}
	inits := [][]string{{}, {"A w/d"}, {"A w/f"}, {"A w/d", "A w/f"}, {"A w/lf"}}
	fss := []string{"", "rm w/f", "rm w/f; touch w/f", "mv w/f w/g", "touch w/d/n; rm w/d/n"}
	bound := 2
	if tier != "thorough" {
		inits = inits[:4]
	}
	for _, in := range inits {
		for i, a := range single {
			for j := i; j < len(single); j++ {
				b := single[j]
				for _, fs := range fss {
					if tier != "thorough" {
						// quick: filesystem threads only together with operations on the file they touch
						touchesF := func(s string) bool { return s == "A w/f" || s == "A w/lf" || s == "R w/f" || s == "R w/lf" || s == "L" }
						if fs != "" && fs != "touch w/d/n; rm w/d/n" && !(touchesF(a) && touchesF(b)) {
							continue
						}
						if fs == "touch w/d/n; rm w/d/n" && !(a == "R w/d" || b == "R w/d" || a == "L") {
							continue
						}
					}
					bd := bound
					if tier != "thorough" && (strings.Contains(fs, ";") || fs != "" && !strings.Contains(strings.Join(in, ";"), "A w/f")) {
						bd = 1 // quick: two-step filesystem threads, and filesystem threads on a file that is not watched initially, at bound 1
					}
					add(in, a, b, fs, bd)
				}
			}
		}
	}
	// two calls per thread on the colliding paths
	two := []string{"A w/f; R w/f", "R w/f; A w/f", "A w/d; R ./w/d", "A w/lf; L", "R w/f; L", "A w/f; L"}
	for _, in := range [][]string{{}, {"A w/f"}} {
		for i, a := range two {
			for j := i; j < len(two); j++ {
				for _, fs := range []string{"", "rm w/f; touch w/f"} {
					b := 1
					if tier == "thorough" {
						b = 2
					}
					add(in, a, two[j], fs, b)
				}
			}
		}
	}
	return jobs
}

func init() {
	Checks["C07"] = &CheckDef{Prop: "C07", Jobs: concJobs,
		Rule:      "E1: every schedule up to the preemption bound of closed programs {initial watch set} x {two API threads, one or two calls each from Add/Remove/WatchList/Close over paths forced to collide: one directory in two spellings, a file and its symlink} x {a filesystem thread deleting, recreating, renaming the file or streaming events into the directory}, on the instrumented real code with the reader thread; a state is one maximal execution, a transition one scheduler step",
		Technique: "stateless model checking (preemption-bounded schedule enumeration of the real code) with, per execution, lockset assertions on every access to the guarded tables, panic/deadlock detection, and a linearizability check of the recorded call/return history against a nondeterministic sequential watch-set model (porcupine v1.3.0)",
		Assume:    []string{"lockset discipline as specified in vinst.DefaultGuards (watch tables under mu, cookie ring under cookiesMu)", "a supplementary free-running -race pass is not a deciding step"}}
}
