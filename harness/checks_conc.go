package harness

import (
	"fmt"
	"os"
	"os/exec"
	"path/filepath"
	"regexp"
	"sort"
	"strings"
)

func concJobs(tier string) []Job {
	var jobs []Job
	add := func(init []string, t1, t2, fs string, bound int) {
		jobs = append(jobs, Job{Family: "conc", Bound: bound, Params: map[string]any{"init": init, "t1": t1, "t2": t2, "fs": fs}})
	}
	single := []string{"A w/d", "A ./w/d", "R w/d", "R ./w/d", "A w/f", "A w/lf", "R w/f", "R w/lf", "L", "C"}
	inits := [][]string{{}, {"A w/d"}, {"A w/f"}, {"A w/d", "A w/f"}, {"A w/lf"}}
	fss := []string{"", "rm w/f", "rm w/f; touch w/f", "mv w/f w/g", "touch w/d/n; rm w/d/n", "mv w/f w/g; rm w/g"}
	bound := 2
	if tier != "thorough" {
		inits = inits[:4]
	}
	for _, in := range inits {
		for i, a := range single {
			for j := i; j < len(single); j++ {
				b := single[j]
				for _, fs := range fss {
					if tier != "thorough" {
						// quick: filesystem threads only together with operations on the file they touch
						touchesF := func(s string) bool { return s == "A w/f" || s == "A w/lf" || s == "R w/f" || s == "R w/lf" || s == "L" }
						if fs != "" && fs != "touch w/d/n; rm w/d/n" && !(touchesF(a) && touchesF(b)) {
							continue
						}
						if fs == "touch w/d/n; rm w/d/n" && !(a == "R w/d" || b == "R w/d" || a == "L") {
							continue
						}
					}
					bd := bound
					if tier != "thorough" && (strings.Contains(fs, ";") || fs != "" && strings.Join(in, ";") != "A w/f") {
						bd = 1 // quick: two-step filesystem threads at bound 1; one-step ones at bound 2 only from the watch set {f}
					}
					add(in, a, b, fs, bd)
				}
			}
		}
	}
	// two calls per thread on the colliding paths
	two := []string{"A w/f; R w/f", "R w/f; A w/f", "A w/d; R ./w/d", "A w/lf; L", "R w/f; L", "A w/f; L"}
	for _, in := range [][]string{{}, {"A w/f"}} {
		for i, a := range two {
			for j := i; j < len(two); j++ {
				for _, fs := range []string{"", "rm w/f; touch w/f"} {
					b := 1
					if tier == "thorough" {
						b = 2
					}
					add(in, a, two[j], fs, b)
				}
			}
		}
	}
	return jobs
}

// racePass runs cmd/vrace (built with -race from the working tree's uninstrumented package by vcheck):
// the same two-caller programs as real goroutines. Sampling, supplementary: it can only add reports.
func racePass(tier string) (map[string]any, []Violation, []string) {
	return racePassMode("programs", "C07", tier)
}

// racePassMulti: several Watchers at work at once, each used only by its own reader and consumer - what the race
// detector reports there, and any entry name a Watcher delivers that was never created in its directories, is
// something shared between Watchers (C14). Supplementary like racePass.
func racePassMulti(tier string) (map[string]any, []Violation, []string) {
	return racePassMode("multi", "C14", tier)
}

func racePassMode(mode, prop, tier string) (map[string]any, []Violation, []string) {
	bin := os.Getenv("VRACE_BIN")
	cov := map[string]any{}
	if bin == "" {
		cov["free_running_race_pass"] = "not run (no race-enabled build available)"
		return cov, nil, nil
	}
	dir, err := os.MkdirTemp("/dev/shm", "vracelog-")
	if err != nil {
		dir, err = os.MkdirTemp("", "vracelog-")
	}
	if err != nil {
		return cov, nil, nil
	}
	defer os.RemoveAll(dir)
	reps := "3"
	if tier == "thorough" {
		reps = "27"
	}
	if mode == "multi" {
		reps = "5"
		if tier == "thorough" {
			reps = "100"
		}
	}
	cmd := exec.Command(bin, "-mode", mode, "-reps", reps)
	cmd.Env = append(os.Environ(), "GORACE=log_path="+filepath.Join(dir, "race")+" exitcode=66 halt_on_error=0")
	out, rerr := cmd.CombinedOutput()
	reports := parseRaceLogs(dir)
	summary := strings.TrimSpace(string(out))
	if i := strings.LastIndex(summary, "vrace:"); i >= 0 {
		summary = summary[i:]
	}
	cov["free_running_race_pass"] = map[string]any{"mode": mode, "note": "sampling, supplementary to the exhaustive exploration; not part of the coverage claim", "result": summary, "race_reports": len(reports)}
	if rerr != nil && len(reports) == 0 && !strings.Contains(string(out), "WRONG-NAME:") {
		if ee, ok := rerr.(*exec.ExitError); !ok || ee.ExitCode() != 66 {
			// the pass itself broke (e.g. the changed tree panics when used by real goroutines): say so, decide nothing
			cov["free_running_race_pass"] = map[string]any{"note": "the pass did not complete; nothing is concluded from it", "error": rerr.Error(), "output_tail": tailStr(string(out), 600)}
		}
		return cov, nil, nil
	}
	var vs []Violation
	seen := map[string]bool{}
	for _, r := range reports {
		sig := "data race (free-running pass): " + raceSig(r)
		if mode == "multi" {
			sig = "data race between Watchers (free-running pass): " + raceSig(r)
		}
		if seen[sig] {
			continue
		}
		seen[sig] = true
		vs = append(vs, Violation{Property: prop, Scenario: "race/" + mode, Signature: sig, Detail: tailStr(r, 3000)})
	}
	if mode == "multi" && strings.Contains(string(out), "WRONG-NAME:") {
		var lines []string
		for _, l := range strings.Split(string(out), "\n") {
			if strings.HasPrefix(l, "WRONG-NAME:") {
				lines = append(lines, l)
			}
		}
		vs = append(vs, Violation{Property: prop, Scenario: "race/" + mode, Signature: "with other Watchers at work a Watcher delivers entry names that were never created in its directories (free-running pass)", Detail: strings.Join(lines, "\n")})
	}
	return cov, vs, nil
}

func tailStr(s string, n int) string {
	if len(s) > n {
		return s[:n] + "..."
	}
	return s
}

func parseRaceLogs(dir string) []string {
	var out []string
	files, _ := filepath.Glob(filepath.Join(dir, "race.*"))
	sort.Strings(files)
	for _, f := range files {
		b, err := os.ReadFile(f)
		if err != nil {
			continue
		}
		for _, blk := range strings.Split(string(b), "==================") {
			if strings.Contains(blk, "WARNING: DATA RACE") {
				out = append(out, strings.TrimSpace(blk))
			}
		}
	}
	return out
}

var raceFn = regexp.MustCompile(`(?m)^  (github\.com/fsnotify/fsnotify\.[^\s(]+)\(`)

// raceSig: the library functions on top of the two stacks (stable across runs, no addresses or line numbers).
func raceSig(report string) string {
	var fns []string
	parts := regexp.MustCompile(`(?m)^(Write|Read|Previous write|Previous read) at `).Split(report, -1)
	for _, p := range parts[1:] {
		if m := raceFn.FindStringSubmatch(p); m != nil {
			fns = append(fns, strings.TrimPrefix(m[1], "github.com/fsnotify/fsnotify."))
		} else {
			fns = append(fns, "?")
		}
		if len(fns) == 2 {
			break
		}
	}
	sort.Strings(fns)
	return strings.Join(fns, " / ")
}

func raceReplay(v *Violation) int {
	mode := strings.TrimPrefix(v.Scenario, "race/")
	if mode != "multi" {
		mode = "programs"
	}
	bin := os.Getenv("VRACE_BIN")
	if bin == "" {
		fmt.Println("replay: no race-enabled build available")
		return 2
	}
	dir, _ := os.MkdirTemp("", "vracelog-")
	defer os.RemoveAll(dir)
	cmd := exec.Command(bin, "-mode", mode, "-reps", "27")
	cmd.Env = append(os.Environ(), "GORACE=log_path="+filepath.Join(dir, "race")+" exitcode=66 halt_on_error=0")
	out, _ := cmd.CombinedOutput()
	if strings.Contains(v.Signature, "entry names that were never created") && strings.Contains(string(out), "WRONG-NAME:") {
		fmt.Println(tailStr(string(out), 2000))
		fmt.Printf("VIOLATION property=%s replay=(free-running pass re-run)\n", v.Property)
		return 1
	}
	for _, r := range parseRaceLogs(dir) {
		sig := "data race (free-running pass): " + raceSig(r)
		if mode == "multi" {
			sig = "data race between Watchers (free-running pass): " + raceSig(r)
		}
		fmt.Printf("violation: property=%s signature=%q\n", v.Property, sig)
		if sig == v.Signature {
			fmt.Println(tailStr(r, 3000))
			fmt.Printf("VIOLATION property=%s replay=(free-running pass re-run)\n", v.Property)
			return 1
		}
	}
	fmt.Println("replay: the recorded race was not reported in this re-run (the pass samples schedules)")
	return 0
}

func init() {
	DirectReplays["C07"] = raceReplay
	DirectReplays["C14"] = raceReplay
	Checks["C07"] = &CheckDef{Prop: "C07", Jobs: concJobs, Side: racePass,
		Rule:      "E1: every schedule up to the preemption bound of closed programs {initial watch set} x {two API threads, one or two calls each from Add/Remove/WatchList/Close over paths forced to collide: one directory in two spellings, a file and its symlink} x {a filesystem thread deleting, recreating, renaming the file or streaming events into the directory}, on the instrumented real code with the reader thread; a state is one maximal execution, a transition one scheduler step",
		Technique: "stateless model checking (preemption-bounded schedule enumeration of the real code) with, per execution, lockset assertions on every access to the guarded tables, panic/deadlock detection, and a linearizability check of the recorded call/return history against a nondeterministic sequential watch-set model (porcupine v1.3.0)",
		Assume:    []string{"lockset discipline as specified in vinst.DefaultGuards (watch tables under mu, cookie ring under cookiesMu)", "a supplementary free-running -race pass is not a deciding step"}}
}
