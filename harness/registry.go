package harness

import (
	"encoding/json"

	"verif/engine/vsched"
)

// Families maps a family name to a constructor of scenarios from parameters.
var Families = map[string]func(p map[string]any) *Scenario{}

func goNamed(name string, f func()) *vsched.Thread { return vsched.GoNamed(name, f) }

// GoNamed starts a harness thread (for other harness packages).
func GoNamed(name string, f func()) { vsched.GoNamed(name, f) }

func chanInfo[T any](c chan T) (bool, int) { return vsched.ChanInfo(c) }

// Job is one unit of exploration handed to a worker process.
type Job struct {
	ID           int            `json:"id"`
	Family       string         `json:"family"`
	Params       map[string]any `json:"params"`
	Bound        int            `json:"bound"`  // preemption bound; <0 unbounded
	Budget       int            `json:"budget"` // max executions, 0 = none
	StopFirst    bool           `json:"stop_first"`
	Prune        bool           `json:"prune,omitempty"` // global-state-key pruning (sound for oracles over end states and per-thread histories only)
	DeadlineUnix int64          `json:"deadline_unix"`   // stop enumerating after this time (exhaustive=false)
	MaxSeconds   int            `json:"max_seconds,omitempty"`
	// Deepening: an extra, open-ended pass (usually unbounded) run after the bounded jobs; being cut by
	// its time budget does not make the check non-exhaustive, how far it got is reported separately.
	Deepening bool `json:"deepening,omitempty"`
}

type JobResult struct {
	Job        Job             `json:"job"`
	Stats      Stats           `json:"stats"`
	Violations []Violation     `json:"violations"`
	EngineErr  string          `json:"engine_err,omitempty"`
	Sample     []int           `json:"sample_schedule,omitempty"`
	Extra      json.RawMessage `json:"extra,omitempty"`
	// WorkerGone: the worker process that produced this result has exited (a spinning goroutine cannot be stopped)
	WorkerGone bool `json:"worker_gone,omitempty"`
}
