package harness

func bfsRec(tier string) *BFSDef {
	al := []string{
		"mkdir w/r/sub/n", "mkdir w/r/sub/n/m", "mkdir w/r/dir1/k", "mkdir w/r/sub",
		"mv w/r/sub w/r/moved", "mv w/r/moved w/r/sub", "mv w/r/dir1 w/r/dirA", "mv w/r/sub/d w/r/sub2/dd", "mv w/r/sub2 w/r/sub/in",
		"touch w/r/t", "touch w/r/dir1/t", "touch w/r/dir10/t", "touch w/r/sub/t", "touch w/r/sub2/t", "touch w/r/sub/d/t", "touch w/r/sub2/d/t",
		"touch w/r/moved/t", "touch w/r/moved/d/t", "touch w/r/dirA/t", "touch w/r/dir10/c10/t", "touch w/r/sub/n/t", "touch w/r/sub/n/m/t", "touch w/r2/x/t",
		"rm w/r/sub2/f", "rm w/r/dir10/f", "rm w/r/moved/f", "write w/r/sub2/d/f", "write w/r/dir10/f", "write w/r2/x/f",
		"rmdir w/r/dir10/c10", "RR w/r", "RA w/r", "RR w/r2", "RA w/r2",
	}
	d := 3
	if tier == "thorough" {
		d = 5
	}
	return &BFSDef{Name: "recursive", Family: "rec", Base: map[string]any{"init": []string{"RA w/r", "RA w/r2"}}, Alphabet: al, Depth: d}
}

func init() {
	Checks["C19"] = &CheckDef{Prop: "C19", BFS: func(tier string) []*BFSDef { return []*BFSDef{bfsRec(tier)} },
		Rule:      "E2: BFS over histories on two recursive roots whose trees contain prefix-sharing siblings (dir1/dir10, sub/sub2, each with children): mkdir one level at a time, rename of inner directories within the tree (also into a sibling), file operations at every directory, re-mkdir of a moved-away name, Remove/Add of either root; quiescence after every step. A state is the canonical tree picture plus the library tables keyed by inode rank",
		Technique: "explicit-state model checking (BFS on the real code, recursion switched on through the verif hook); oracle = every event carries the true current path of its directory (inode walk of the real tree) with the documented Op and old name, the kernel's mark list equals the set of directories of the active trees in every state, WatchList stays inside the active trees",
		Assume:    []string{"mkdir -p bursts and directories moved in from / out to the outside are excluded, as the property states"}}
}
