package harness

import "strings"

func bfsRec(tier string) *BFSDef {
	al := []string{
		"mkdir w/r/sub/n", "mkdir w/r/sub/n/m", "mkdir w/r/dir1/k", "mkdir w/r/sub",
		"mv w/r/sub w/r/moved", "mv w/r/moved w/r/sub", "mv w/r/dir1 w/r/dirA", "mv w/r/sub/d w/r/sub2/dd", "mv w/r/sub2 w/r/sub/in", "mv w/r/dir1 w/r/empty", "touch w/r/empty/t",
		// the same entry before and after its directory was renamed
		"write w/r/sub/f", "write w/r/moved/f",
		// directory names that begin with dots are ordinary names
		"touch w/r/sub/..x/t", "touch w/r/moved/..x/t", "touch w/r/...y/t",
		"touch w/r/t", "touch w/r/dir1/t", "touch w/r/dir10/t", "touch w/r/sub/t", "touch w/r/sub2/t", "touch w/r/sub/d/t", "touch w/r/sub2/d/t",
		"touch w/r/moved/t", "touch w/r/moved/d/t", "touch w/r/dirA/t", "touch w/r/dir10/c10/t", "touch w/r/sub/n/t", "touch w/r/sub/n/m/t", "touch w/r2/x/t",
		"rm w/r/sub2/f", "rm w/r/dir10/f", "rm w/r/moved/f", "write w/r/sub2/d/f", "write w/r/dir10/f", "write w/r2/x/f",
		"rmdir w/r/dir10/c10", "RR w/r", "RA w/r", "RR w/r2", "RA w/r2",
	}
	d := 3
	if tier == "thorough" {
		d = 5
	}
	return &BFSDef{Name: "recursive", Family: "rec", Base: map[string]any{"init": []string{"RA w/r", "RA w/r2"}}, Alphabet: al, Depth: d}
}

// recJobs: long histories - more than ten renames seen by one Watcher (the
// ten-slot cookie ring wraps), with file operations in the renamed subtree and
// in its prefix-sharing sibling after every rename.
func recJobs(tier string) []Job {
	var hs [][]string
	for _, n := range []int{9, 10, 11, 12, 21} {
		var h []string
		cur := "sub"
		for i := 0; i < n; i++ {
			next := "moved"
			if cur == "moved" {
				next = "sub"
			}
			h = append(h, "mv w/r/"+cur+" w/r/"+next, "touch w/r/"+next+"/d/t", "rm w/r/"+next+"/d/t", "touch w/r/sub2/t", "rm w/r/sub2/t")
			cur = next
		}
		hs = append(hs, h)
		// the same with file renames in between counting towards the ten
		var h2 []string
		cur = "sub"
		for i := 0; i < n; i++ {
			if i%2 == 0 {
				h2 = append(h2, "mv w/r/f w/r/g", "mv w/r/g w/r/f")
			}
			next := "moved"
			if cur == "moved" {
				next = "sub"
			}
			h2 = append(h2, "mv w/r/"+cur+" w/r/"+next, "touch w/r/"+next+"/d/t", "rm w/r/"+next+"/d/t")
			cur = next
		}
		hs = append(hs, h2)
	}
	var jobs []Job
	for _, h := range hs {
		jobs = append(jobs, Job{Family: "seq-batch", Params: map[string]any{"family": "rec", "base": map[string]any{"init": []string{"RA w/r", "RA w/r2"}}, "histories": [][]string{h}}})
	}
	// a directory renamed twice (and there and back) before the reader has handled the first rename: all records of
	// the burst are on the unchanged parent, so the names at event time and at the checkpoint agree
	for _, b := range []string{"mv w/r/sub w/r/tmp ;; mv w/r/tmp w/r/final", "mv w/r/sub w/r/tmp ;; mv w/r/tmp w/r/final ;; mv w/r/final w/r/last", "mv w/r/sub w/r/tmp ;; mv w/r/tmp w/r/sub"} {
		last := b[strings.LastIndex(b, " ")+1:]
		jobs = append(jobs, Job{Family: "seq-batch", Params: map[string]any{"family": "rec", "base": map[string]any{"init": []string{"RA w/r", "RA w/r2"}},
			"histories": [][]string{{b, "touch " + last + "/t", "touch " + last + "/d/t", "mkdir " + last + "/new", "touch " + last + "/new/t", "touch w/r/sub2/t", "RR w/r", "touch " + last + "/d/u"}}}})
	}
	// the two halves of an inner directory's rename end up in different reads (the first half is the last record that
	// fits into the 64 KiB buffer, one before, one after)
	for _, n := range []string{"2046", "2047", "2048"} {
		jobs = append(jobs, Job{Family: "seq-batch", Params: map[string]any{"family": "rec", "base": map[string]any{"init": []string{"RA w/r", "RA w/r2"}, "maxsteps": 2000000},
			"histories": [][]string{{"dirburst w/r/sub2 " + n + " ;; mv w/r/sub w/r/moved", "touch w/r/moved/t", "touch w/r/moved/d/t", "write w/r/moved/f"}}}})
	}
	// "covered from the moment its own Create has been delivered": the new directory's Create shares a read
	// buffer with later events and is the one the reader is parked on (no consumer yet); something is created
	// inside the new directory right then
	var lq [][]string
	for _, nd := range []string{"w/r/sub/n", "w/r/nn", "w/r/dir10/c10/n"} {
		lq = append(lq, []string{"mkdir " + nd + " ;; touch w/r/t", "touch " + nd + "/inner ;; mkdir " + nd + "/deeper", "touch " + nd + "/deeper/x"})
		lq = append(lq, []string{"mkdir " + nd, "touch " + nd + "/inner", "rm " + nd + "/inner"})
	}
	jobs = append(jobs, Job{Family: "seq-batch", Params: map[string]any{"family": "rec", "base": map[string]any{"init": []string{"RA w/r", "RA w/r2"}, "late": "q"}, "histories": lq}})
	return jobs
}

func init() {
	Checks["C19"] = &CheckDef{Prop: "C19", Jobs: recJobs, BFS: func(tier string) []*BFSDef { return []*BFSDef{bfsRec(tier)} },
		Rule:      "E2: BFS over histories on two recursive roots whose trees contain prefix-sharing siblings (dir1/dir10, sub/sub2, each with children): mkdir one level at a time, rename of inner directories within the tree (also into a sibling), file operations at every directory, re-mkdir of a moved-away name, Remove/Add of either root; quiescence after every step. A state is the canonical tree picture plus the library tables keyed by inode rank",
		Technique: "explicit-state model checking (BFS on the real code, recursion switched on through the verif hook); oracle = every event carries the true current path of its directory (inode walk of the real tree) with the documented Op and old name, the kernel's mark list equals the set of directories of the active trees in every state, WatchList stays inside the active trees",
		Assume:    []string{"mkdir -p bursts and directories moved in from / out to the outside are excluded, as the property states"}}
}
