package harness

import (
	"fmt"
	"os"
	"sort"
	"strings"

	"verif/engine/vsys"
	"verif/gen/fsnotify"
)

// Family "ctl": control calls against pending events/errors (C05, C06, C13).
//
// params: hist (history leaving things pending), ctl (control program),
// cons (consumer configuration), cap (Events capacity, -1 = NewWatcher).

var CtlHists = []string{"idle", "mixed3", "burst6", "mvrm", "mvrmdir", "rmadd", "readerr", "shortread", "eof", "overflow", "movein", "fresh", "unmount"}
var CtlCtls = []string{"close", "add-close", "remove-close", "list-close", "close||close", "close||add", "close||remove", "close||list", "add||remove", "list"}
var CtlCons = []string{"none", "events", "errors", "both", "both-stop1", "both-stop2"}

func init() {
	Families["ctl"] = ctlScenario
}

func pstr(p map[string]any, k, def string) string {
	if v, ok := p[k]; ok {
		return fmt.Sprint(v)
	}
	return def
}

func pint(p map[string]any, k string, def int) int {
	if v, ok := p[k]; ok {
		switch t := v.(type) {
		case int:
			return t
		case float64:
			return int(t)
		}
	}
	return def
}

func mustNil(err error) {
	if err != nil {
		panic(fmt.Sprintf("harness setup failed: %v", err))
	}
}

func ctlScenario(p map[string]any) *Scenario {
	hist, ctl, cons, capa := pstr(p, "hist", "idle"), pstr(p, "ctl", "close"), pstr(p, "cons", "none"), pint(p, "cap", -1)
	sc := &Scenario{Name: fmt.Sprintf("ctl/%s/%s/%s/cap%d", hist, ctl, cons, capa), Params: p}
	sc.Body = func(x *X) {
		// fixture (no watcher exists yet, so these are not scheduling points)
		mustNil(os.Mkdir("w/d", 0o755))
		mustNil(os.Mkdir("w/d2", 0o755))
		mustNil(os.WriteFile("w/f", []byte("x"), 0o644))
		mustNil(os.WriteFile("w/d/a", []byte("x"), 0o644))
		switch hist {
		case "readerr":
			vsys.Get().ReadFaults = []vsys.ReadFault{{Nth: 0, Err: vsys.ErrInjected}}
		case "shortread":
			vsys.Get().ReadFaults = []vsys.ReadFault{{Nth: 0, Short: 8}}
		case "eof":
			vsys.Get().ReadFaults = []vsys.ReadFault{{Nth: 0, EOF: true}}
		}
		w, err := x.NewWatcher(capa)
		mustNil(err)
		if hist == "overflow" || hist == "unmount" {
			x.SubstitutePipe(w)
		}
		if hist != "fresh" { // "fresh": nothing was ever added, the control program's Add (if any) is the Watcher's first
			mustNil(x.Add(w, "w/f"))
			mustNil(x.Add(w, "w/d"))
		}
		switch cons {
		case "events":
			x.Consume(w, "consumer", ConsumerMode{Events: true})
		case "errors":
			x.Consume(w, "consumer", ConsumerMode{Errors: true})
		case "both":
			x.Consume(w, "consumer", ConsumerMode{Events: true, Errors: true})
		case "both-stop1":
			x.Consume(w, "consumer", ConsumerMode{Events: true, Errors: true, StopAfter: 1})
		case "both-stop2":
			x.Consume(w, "consumer", ConsumerMode{Events: true, Errors: true, StopAfter: 2})
		}
		switch hist {
		case "idle", "fresh":
		case "mixed3", "readerr", "shortread", "eof":
			x.Chmod("w/f", 0o600)
			x.Write("w/f", "y")
			x.Chmod("w/f", 0o644)
		case "burst6":
			for i := 0; i < 6; i++ {
				x.Touch(fmt.Sprintf("w/d/n%d", i))
			}
		case "mvrm":
			x.Mv("w/f", "w/g")
			x.Rm("w/g")
		case "mvrmdir":
			x.Mv("w/d", "w/e")
			x.Rm("w/e/a")
			x.Rmdir("w/e")
		case "rmadd":
			x.Rm("w/f")
			x.Touch("w/f")
		case "movein":
			// a move in from an unwatched place (a cookie nobody stored), then renames with cookies
			mustNil(os.Mkdir("w/o", 0o755))
			mustNil(os.WriteFile("w/o/p", []byte("x"), 0o644))
			x.Mv("w/o/p", "w/d/p")
			x.Mv("w/d/p", "w/d/q")
			x.Mv("w/d/a", "w/d/c")
		case "overflow":
			// wd 2 is w/d (second Add); the overflow marker sits between two genuine records
			x.Inject(w, Rec{Wd: 2, Mask: 0x100, Name: "n1"}, Rec{Wd: -1, Mask: 0x4000}, Rec{Wd: 2, Mask: 0x100, Name: "n2"})
		case "unmount":
			// the filesystem under w/d (wd 2) is unmounted: IN_UNMOUNT, then IN_IGNORED, between two genuine records
			x.Inject(w, Rec{Wd: 1, Mask: 0x4, Name: ""}, Rec{Wd: 2, Mask: 0x2000}, Rec{Wd: 2, Mask: 0x8000}, Rec{Wd: 1, Mask: 0x2, Name: ""})
		default:
			panic("unknown hist " + hist)
		}
		probe := func() {
			// post-close API must be inert (C06)
			e1 := x.Add(w, "w/d2")
			e2 := x.Remove(w, "w/d")
			l := x.WatchList(w)
			x.obs(Obs{Kind: "note", What: "postclose", Arg: fmt.Sprintf("add=%s remove=%s list-nil=%t", ErrClass(e1), ErrClass(e2), l == nil)})
		}
		second := func(f func()) {
			x.S.Note("spawn second")
			goNamed("ctl2", f)
		}
		switch ctl {
		case "close":
			x.Close(w)
			probe()
		case "add-close":
			x.Add(w, "w/d2")
			x.Close(w)
			probe()
		case "remove-close":
			x.Remove(w, "w/d")
			x.Close(w)
			probe()
		case "list-close":
			x.WatchList(w)
			x.Close(w)
			probe()
		case "close||close":
			second(func() { x.Close(w) })
			x.Close(w)
			probe()
		case "close||add":
			second(func() { x.Add(w, "w/d2") })
			x.Close(w)
			probe()
		case "close||remove":
			second(func() { x.Remove(w, "w/d") })
			x.Close(w)
			probe()
		case "close||list":
			second(func() { x.WatchList(w) })
			x.Close(w)
			probe()
		case "list":
			x.WatchList(w)
		case "add||remove":
			second(func() { x.Remove(w, "w/d") })
			x.Add(w, "w/d2")
			x.WatchList(w)
		default:
			panic("unknown ctl " + ctl)
		}
	}
	sc.Check = func(x *X, e *End) []Violation {
		var out []Violation
		for _, o := range x.Log {
			if o.Kind == "note" && o.What == "inheritable-descriptor" {
				out = append(out, Violation{Property: "C13", Signature: "the notification descriptor is inheritable by child processes (not close-on-exec), so Close does not release the instance while a child lives", Detail: o.Arg})
				break
			}
		}
		closeReturned := false
		for _, o := range x.Log {
			if o.Kind == "ret" && o.What == "Close" {
				closeReturned = true
			}
		}
		// C05: every control call returned
		if len(e.Pending) > 0 {
			var who []string
			for _, b := range e.Blocked {
				who = append(who, fmt.Sprintf("%s:%s %s", b.Thread, b.Kind, b.Label))
			}
			calls := make([]string, len(e.Pending))
			for i, pc := range e.Pending {
				calls[i] = pc[:strings.Index(pc, "(")]
			}
			out = append(out, Violation{Property: "C05",
				Signature: fmt.Sprintf("deadlock hist=%s cons=%s: %s never return", hist, cons, strings.Join(uniq(calls), ",")),
				Detail:    fmt.Sprintf("calls that never returned: %v; blocked threads: %v", e.Pending, who)})
			if hist == "overflow" {
				out = append(out, Violation{Property: "C10",
					Signature: fmt.Sprintf("after a queue overflow (cons=%s) the Watcher no longer accepts control calls: %s never return", cons, strings.Join(uniq(calls), ",")),
					Detail:    fmt.Sprintf("calls that never returned: %v; blocked threads: %v", e.Pending, who)})
			}
			for _, cl := range calls {
				if cl == "Close" {
					out = append(out, Violation{Property: "C06",
						Signature: fmt.Sprintf("Close never returned (hist=%s cons=%s): Events and Errors are never closed", hist, cons),
						Detail:    fmt.Sprintf("blocked threads: %v", who)})
					out = append(out, Violation{Property: "C13",
						Signature: fmt.Sprintf("Close never returned (hist=%s cons=%s): descriptor, kernel watches and reader goroutine are never released", hist, cons),
						Detail:    fmt.Sprintf("blocked threads: %v; descriptors still open: %v", who, e.LeftOpen)})
					break
				}
			}
		}
		// C10: ordinary activity never puts a value on Errors
		// (judged up to the first Close call: C10 quantifies over filesystem
		// histories and reader speeds, not over a Close racing the clean-up)
		if hist != "readerr" && hist != "shortread" && hist != "eof" {
			for _, o := range x.Log {
				if o.Kind == "call" && o.What == "Close" {
					break
				}
				if o.Kind == "error" && !(hist == "overflow" && o.Err == "ErrEventOverflow") {
					out = append(out, Violation{Property: "C10", Signature: fmt.Sprintf("value on Errors for benign history %s: %s", hist, o.Err), Detail: o.What})
				}
			}
		}
		// C06: nothing Go would panic on
		if e.Failure != "" {
			out = append(out, Violation{Property: "C06", Signature: "panic: " + firstLine(e.Failure), Detail: e.Failure})
		}
		if closeReturned && e.Failure == "" {
			evClosed, _ := chanInfo(x.Watchers[0].Events)
			erClosed, _ := chanInfo(x.Watchers[0].Errors)
			if !evClosed || !erClosed || len(e.LibAlive) > 0 {
				out = append(out, Violation{Property: "C06",
					Signature: fmt.Sprintf("after Close returned: events-closed=%t errors-closed=%t reader-alive=%t", evClosed, erClosed, len(e.LibAlive) > 0),
					Detail:    fmt.Sprintf("lib threads alive: %v", e.LibAlive)})
			}
			for _, o := range x.Log {
				if o.Kind == "note" && o.What == "postclose" && o.Arg != "add=ErrClosed remove= list-nil=true" {
					out = append(out, Violation{Property: "C06", Signature: "post-close API not inert: " + o.Arg, Detail: o.Arg})
				}
			}
			// no event/error observed by a consumer after it saw the close
			seenClosed := map[string]bool{}
			for _, o := range x.Log {
				switch o.Kind {
				case "events-closed":
					seenClosed["event"] = true
				case "errors-closed":
					seenClosed["error"] = true
				case "event", "error":
					if seenClosed[o.Kind] {
						out = append(out, Violation{Property: "C06", Signature: "value received after close observed", Detail: o.What})
					}
				}
			}
			// C13: everything released
			if len(e.LeftOpen) > 0 || len(e.LibAlive) > 0 {
				out = append(out, Violation{Property: "C13",
					Signature: fmt.Sprintf("after Close returned: %d inotify descriptors open, %d library goroutines alive", len(e.LeftOpen), len(e.LibAlive)),
					Detail:    fmt.Sprintf("fds %v threads %v", e.LeftOpen, e.LibAlive)})
			}
		}
		return out
	}
	sc.Outcome = func(x *X, e *End) string {
		// per-thread results in per-thread order, threads sorted: the relative order of
		// different threads' log entries is not part of the outcome
		per := map[string][]string{}
		nev, nerr := 0, 0
		for _, o := range x.Log {
			switch o.Kind {
			case "ret":
				per[o.Thread] = append(per[o.Thread], fmt.Sprintf("%s=%s%v", o.What, o.Err, o.List))
			case "event":
				nev++
			case "error":
				nerr++
			case "note":
				per[o.Thread] = append(per[o.Thread], fmt.Sprintf("%s:%s", o.What, o.Arg))
			}
		}
		var ths []string
		for t := range per {
			ths = append(ths, t)
		}
		sort.Strings(ths)
		var b strings.Builder
		for _, t := range ths {
			fmt.Fprintf(&b, "%s[%s] ", t, strings.Join(per[t], ";"))
		}
		fmt.Fprintf(&b, "ev=%d err=%d pending=%d blocked=%d", nev, nerr, len(e.Pending), len(e.Blocked))
		return b.String()
	}
	return sc
}

func uniq(in []string) []string {
	m := map[string]bool{}
	var out []string
	for _, s := range in {
		if !m[s] {
			m[s] = true
			out = append(out, s)
		}
	}
	return out
}

func firstLine(s string) string {
	if i := strings.Index(s, "\n"); i >= 0 {
		return s[:i]
	}
	return s
}

var _ = fsnotify.Create
