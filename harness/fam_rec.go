package harness

import (
	"fmt"
	"os"
	"path/filepath"
	"sort"
	"strings"
	"syscall"

	"verif/engine/vsys"
	"verif/gen/fsnotify"
)

// Family "rec" (C19): recursive watches (the not-yet-public feature, switched
// on through the verif hook). Sequential histories like family "seq", with an
// oracle of its own: the true current path of every directory is taken from a
// walk of the real tree (by inode), the kernel's mark list says which
// directories are covered, and the raw kernel records say what happened.
//
// params: init, ops (as in seq; "RA p" = Add(p/...), "RR p" = Remove(p/...)), roots in fixture "rec"

func init() { Families["rec"] = recScenario }

type recState struct {
	x         *X
	w         *fsnotify.Watcher
	fd        int
	wdIno     map[int]uint64
	roots     map[string]bool
	retired   map[int]int64 // wd -> stream position when the Remove that dropped it returned
	cookies   map[uint32]string
	lastPath  map[uint64]string
	readSeen  int
	logSeen   int
	problems  []Problem
	callsSeen int
	burst     bool // the step being judged ran several operations without quiescence in between
}

func (r *recState) problem(cat, sig, detail string) {
	r.problems = append(r.problems, Problem{cat, sig, detail})
}

func (r *recState) streamPos() int64 {
	vs := vsys.Get()
	var read int64
	for _, b := range vs.Reads {
		read += int64(len(b))
	}
	n := vsys.Fionread(r.fd)
	if n < 0 {
		n = 0
	}
	return read + int64(n)
}

// dirs walks the real tree below every active root: inode -> true current path.
func (r *recState) dirs() map[uint64]string {
	out := map[uint64]string{}
	var walk func(p string)
	walk = func(p string) {
		var st syscall.Stat_t
		if syscall.Lstat(p, &st) != nil || st.Mode&syscall.S_IFMT != syscall.S_IFDIR {
			return
		}
		out[st.Ino] = p
		ents, _ := os.ReadDir(p)
		for _, e := range ents {
			walk(filepath.Join(p, e.Name()))
		}
	}
	for root := range r.roots {
		walk(root)
	}
	return out
}

// absorb feeds the seam's add_watch calls made since the last look: wd -> inode.
func (r *recState) absorb() {
	vs := vsys.Get()
	for ; r.callsSeen < len(vs.Calls); r.callsSeen++ {
		c := vs.Calls[r.callsSeen]
		if c.Kind == "add" && c.Err == "" {
			if ino, err := statIno(c.Path, true); err == nil {
				r.wdIno[c.Wd] = ino
				delete(r.retired, c.Wd)
			}
		}
	}
}

func (r *recState) checkpoint() {
	x := r.x
	vs := vsys.Get()
	r.absorb()
	now := r.dirs()
	pathOf := func(ino uint64) (string, bool) {
		if p, ok := now[ino]; ok {
			return p, true
		}
		p, ok := r.lastPath[ino]
		return p, ok
	}
	var exp []Expect
	var pos int64
	for i := 0; i < r.readSeen; i++ {
		pos += int64(len(vs.Reads[i]))
	}
	for ; r.readSeen < len(vs.Reads); r.readSeen++ {
		recs, _ := ParseRecords(vs.Reads[r.readSeen], pos)
		pos += int64(len(vs.Reads[r.readSeen]))
		for _, rec := range recs {
			if rec.Mask&(inIGNORED|inQOVERFLOW|inUNMOUNT) != 0 {
				continue
			}
			ino, known := r.wdIno[int(rec.Wd)]
			dir, ok := pathOf(ino)
			if !known || !ok {
				exp = append(exp, Expect{Kind: "mustnot", Rec: rec})
				continue
			}
			e := Expect{Kind: "must", Op: refOps(rec.Mask), Rec: rec}
			if rp, gone := r.retired[int(rec.Wd)]; gone {
				if rec.Pos >= rp {
					exp = append(exp, Expect{Kind: "mustnot", Rec: rec})
					continue
				}
				e.Kind = "may"
			}
			if rec.Name == "" {
				// self events of a covered directory: the parent reports them (DELETE_SELF is
				// suppressed when the parent is watched, MOVE_SELF does nothing for recursive watches)
				e.Kind = "may"
				e.Name = dir
				if rec.Mask&inMOVESELF != 0 {
					continue
				}
			} else {
				e.Name = dir + "/" + rec.Name
			}
			if rec.Cookie != 0 {
				if rec.Mask&inMOVEDFROM != 0 {
					r.cookies[rec.Cookie] = e.Name
				} else if rec.Mask&inMOVEDTO != 0 {
					e.From = r.cookies[rec.Cookie]
				}
			}
			if e.Op != 0 {
				exp = append(exp, e)
			}
		}
	}
	var got []Got
	for ; r.logSeen < len(x.Log); r.logSeen++ {
		o := x.Log[r.logSeen]
		switch o.Kind {
		case "event":
			got = append(got, Got{o.Name, o.Op, o.From})
		case "error":
			// C19 quantifies over one-level-at-a-time histories; what a burst puts on Errors is not its business
			if !r.burst {
				r.problem("errors-chan", "value on Errors during a one-level-at-a-time history: "+o.Err, o.What)
			}
		}
	}
	r.problems = append(r.problems, Align(exp, got)...)
	// coverage: the kernel marks are exactly the directories of the active trees
	marked := map[uint64]int{}
	for _, m := range readMarks(r.fd) {
		marked[m.ino] = m.wd
	}
	var bad []string
	for ino, p := range now {
		if _, ok := marked[ino]; !ok {
			bad = append(bad, fmt.Sprintf("directory %q inside a recursive watch is not covered by a kernel watch", p))
		}
	}
	for ino, wd := range marked {
		if _, ok := now[ino]; !ok {
			p := r.lastPath[ino]
			bad = append(bad, fmt.Sprintf("kernel watch wd=%d (last known as %q) is on a directory outside every active recursive watch", wd, p))
		}
	}
	if len(bad) > 0 {
		sort.Strings(bad)
		r.problem("coverage", "coverage differs from the tree: "+firstWords(bad[0]), strings.Join(bad, "; "))
	}
	// the two tables hold exactly one entry per kernel watch and agree with each other
	if t := fsnotify.VerifTables(r.w, false); !t.Unavailable {
		var tb []string
		if len(t.Wd) != len(marked) || len(t.Path) != len(marked) {
			tb = append(tb, fmt.Sprintf("table sizes wd=%d path=%d, kernel watches %d", len(t.Wd), len(t.Path), len(marked)))
		}
		for pth, wd := range t.Path {
			if e, ok := t.Wd[wd]; !ok {
				tb = append(tb, fmt.Sprintf("path table entry %q -> wd %d has no wd-table entry (dangling)", pth, wd))
			} else if e.Path != pth {
				tb = append(tb, fmt.Sprintf("path table entry %q -> wd %d, whose watch says %q (stale key)", pth, wd, e.Path))
			}
		}
		if len(tb) > 0 {
			sort.Strings(tb)
			r.problem("tables", "internal tables out of step with the kernel watches: "+firstWords(tb[0]), strings.Join(tb, "; "))
		}
	}
	// WatchList: nothing outside the active trees; every active root listed
	l := x.WatchList(r.w)
	for _, p := range l {
		inside := false
		for root := range r.roots {
			if p == root || strings.HasPrefix(p, root+"/") {
				inside = true
			}
		}
		if !inside {
			r.problem("watchlist", "WatchList shows a path outside every active recursive watch", fmt.Sprintf("%q; roots %v; list %v", p, r.roots, l))
			break
		}
	}
	for root := range r.roots {
		found := false
		for _, p := range l {
			if p == root {
				found = true
			}
		}
		if !found {
			r.problem("watchlist", "WatchList lacks an active recursive root", fmt.Sprintf("%q; list %v", root, l))
		}
	}
	for ino, p := range now {
		r.lastPath[ino] = p
	}
}

func recScenario(p map[string]any) *Scenario {
	initOps, ops := pstrs(p, "init"), pstrs(p, "ops")
	sc := &Scenario{Name: "rec/" + strings.Join(append(append([]string{}, initOps...), ops...), ";"), Params: p}
	if len(sc.Name) > 150 {
		sc.Name = sc.Name[:150]
	}
	sc.Body = func(x *X) {
		fsnotify.VerifSetRecurse(true)
		defer fsnotify.VerifSetRecurse(false)
		mk := func(ps ...string) {
			for _, q := range ps {
				mustNil(os.MkdirAll(q, 0o755))
			}
		}
		mk("w/r/dir1/c1", "w/r/dir10/c10", "w/r/sub/d", "w/r/sub2/d", "w/r2/x", "w/out", "w/r/empty", "w/r/sub/..x", "w/r/...y")
		for _, f := range []string{"w/r/f", "w/r/dir1/f", "w/r/dir10/f", "w/r/sub/f", "w/r/sub2/f", "w/r/sub/d/f", "w/r/sub2/d/f", "w/r2/x/f"} {
			mustNil(os.WriteFile(f, []byte("x"), 0o644))
		}
		w, err := x.NewWatcher(-1)
		mustNil(err)
		lateq := pstr(p, "late", "") == "q" // no consumer while the history runs: the reader parks on the first event of each batch
		if !lateq {
			x.Consume(w, "consumer", ConsumerMode{Events: true, Errors: true})
		}
		r := &recState{x: x, w: w, fd: fsnotify.VerifFd(w), wdIno: map[int]uint64{}, roots: map[string]bool{}, retired: map[int]int64{},
			cookies: map[uint32]string{}, lastPath: map[uint64]string{}}
		x.Vars["rec"] = r
		seq := &SeqState{X: x, W: w}
		do := func(op string) {
			f := strings.Fields(op)
			switch f[0] {
			case "RA":
				if err := x.Add(w, f[1]+"/..."); err != nil {
					r.problem("errclass", "recursive Add of an existing directory failed", fmt.Sprint(err))
				} else {
					r.roots[filepath.Clean(f[1])] = true
				}
				r.absorb()
			case "RR":
				root := filepath.Clean(f[1])
				before := map[uint64]string{}
				if r.roots[root] {
					save := r.roots
					r.roots = map[string]bool{root: true}
					before = r.dirs()
					r.roots = save
				}
				err := x.Remove(w, f[1]+"/...")
				if r.roots[root] {
					if err != nil {
						r.problem("errclass", "Remove of an active recursive watch failed", fmt.Sprint(err))
					}
					delete(r.roots, root)
					pos := r.streamPos()
					for wd, ino := range r.wdIno {
						if _, in := before[ino]; in {
							r.retired[wd] = pos
						}
					}
				} else if ErrClass(err) != "ErrNonExistentWatch" {
					r.problem("errclass", "Remove of an inactive recursive watch did not report ErrNonExistentWatch", fmt.Sprint(err))
				}
			default:
				seq.DoOp(op)
			}
		}
		x.Quiesce()
		for _, op := range initOps {
			do(op)
			x.Quiesce()
			r.checkpoint()
		}
		for _, op := range ops {
			if strings.Contains(op, ";;") {
				r.burst = true
			} else if !lateq {
				r.burst = false
			}
			for _, part := range strings.Split(op, ";;") {
				do(strings.TrimSpace(part))
			}
			x.Quiesce()
			if !lateq {
				r.checkpoint()
			}
		}
		if lateq {
			x.Consume(w, "consumer", ConsumerMode{Events: true, Errors: true})
			x.Quiesce()
			r.checkpoint()
		}
		// canonical state: tree picture + library tables keyed by inode rank
		pic, rank := fsPicture(x.Root, x.fds)
		t := fsnotify.VerifTables(w, false)
		var ents []string
		for wd, v := range t.Wd {
			ents = append(ents, fmt.Sprintf("i%d=%q", rank[r.wdIno[int(wd)]], v.Path))
		}
		for pth, wd := range t.Path {
			ents = append(ents, fmt.Sprintf("%q->i%d", pth, rank[r.wdIno[int(wd)]]))
		}
		var rs []string
		for root := range r.roots {
			rs = append(rs, root)
		}
		sort.Strings(ents)
		sort.Strings(rs)
		x.Vars["canon"] = pic + "|" + strings.Join(ents, " ") + "|" + strings.Join(rs, ",")
	}
	sc.Check = func(x *X, e *End) []Violation {
		var out []Violation
		if r, ok := x.Vars["rec"].(*recState); ok {
			for _, pr := range r.problems {
				out = append(out, Violation{Property: "C19", Signature: pr.Cat + ": " + pr.Sig, Detail: pr.Detail})
				if pr.Cat == "name" || pr.Cat == "phantom" {
					// an event under a path that does not exist / was never watched is a phantom in C02's sense too
					out = append(out, Violation{Property: "C02", Signature: "recursive: " + pr.Cat + ": " + pr.Sig, Detail: pr.Detail})
				}
				if pr.Cat == "name" {
					out = append(out, Violation{Property: "C08", Signature: "recursive: " + pr.Cat + ": " + pr.Sig, Detail: pr.Detail})
				}
				if pr.Cat == "tables" || pr.Cat == "coverage" {
					// bookkeeping out of step with the kernel is C12's business under recursion as well
					out = append(out, Violation{Property: "C12", Signature: "recursive: " + pr.Cat + ": " + pr.Sig, Detail: pr.Detail})
				}
			}
		}
		if e.Failure != "" {
			out = append(out, Violation{Property: "C19", Signature: "panic: " + panicSite(e.Failure), Detail: e.Failure})
		} else if len(e.Pending) > 0 {
			out = append(out, Violation{Property: "C19", Signature: "call never returned: " + strings.Join(e.Pending, ","), Detail: fmt.Sprint(e.Blocked)})
		}
		return out
	}
	sc.Outcome = func(x *X, e *End) string {
		c, _ := x.Vars["canon"].(string)
		return hashStr(c)
	}
	return sc
}
