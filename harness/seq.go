package harness

import (
	"crypto/sha256"
	"encoding/hex"
	"fmt"
	"os"
	"path/filepath"
	"sort"
	"strconv"
	"strings"
	"sync"
	"syscall"
	"time"

	"verif/engine/vsched"
	"verif/engine/vsys"
	"verif/gen/fsnotify"
)

// Sequential ("quiescent") driver: one harness thread performs a list of
// operations; after each one it either lets reader and consumer run until both
// are parked (quiescence) or withholds that (the notifications pile up in the
// kernel queue and are read as one batch later). At every quiescence the
// reference model is brought up to date and compared with the library.

// SeqState is the per-watcher oracle state of a sequential execution.
type SeqState struct {
	X                *X
	W                *fsnotify.Watcher
	WI               int
	Fd               int
	M                *Ideal
	readSeen         int   // number of vs.Reads already parsed
	readPos          int64 // bytes consumed from this watcher's stream
	logSeen          int   // x.Log index up to which events/errors were compared
	expErrs          int
	Problems         []Problem
	Skip             map[string]bool // problem categories not judged by this scenario
	calls            int
	inj              bool
	consuming        bool
	TablesUnreadable bool // the hook could not read the library's tables (the table comparison of C12 was skipped)
	closing          bool
	Closed           bool
	Cap              int
	reqOps           map[int]uint32 // kernel wd -> union of the operations requested for it (C15's subscription side)
}

func (s *SeqState) vs() *vsys.State { return vsys.Get() }

// streamPos is the number of bytes the kernel has queued on this watcher's
// descriptor so far: everything already read plus what is still waiting.
func (s *SeqState) streamPos() int64 {
	vs := s.vs()
	var read int64
	for i, b := range vs.Reads {
		if s.inj || vs.ReadFd[i] == s.Fd {
			read += int64(len(b))
		}
	}
	if s.inj {
		return read
	}
	n := vsys.Fionread(s.Fd)
	if n < 0 {
		n = 0
	}
	return read + int64(n)
}

func (s *SeqState) problem(cat, sig, detail string) {
	s.Problems = append(s.Problems, Problem{cat, sig, detail})
}

// NewSeqState creates the watcher, its consumer and the model.
func NewSeqState(x *X, capa int, inject, lateConsumer bool) *SeqState {
	w, err := x.NewWatcher(capa)
	mustNil(err)
	// the descriptor number comes from the syscall seam (the last inotify_init1), not from the library
	fd := fsnotify.VerifFd(w)
	if fds := vsys.Get().Fds; len(fds) > 0 {
		fd = fds[len(fds)-1]
	}
	s := &SeqState{X: x, W: w, WI: x.widx(w), Fd: fd, M: NewIdeal(), Skip: map[string]bool{}, inj: inject, Cap: capa}
	if inject {
		x.SubstitutePipe(w)
	}
	want := capa
	if capa < 0 {
		want = fsnotify.VerifDefaultBufferSize()
	}
	if cap(w.Events) != want {
		s.problem("capacity", "Events channel capacity differs from the size requested", fmt.Sprintf("cap=%d requested=%d", cap(w.Events), want))
	}
	if !lateConsumer {
		s.StartConsumer()
	}
	return s
}

// StartConsumer attaches the draining consumer (immediately, or after the
// history when the scenario checks that a buffered Watcher absorbs events).
func (s *SeqState) StartConsumer() {
	if !s.consuming {
		s.consuming = true
		s.X.Consume(s.W, fmt.Sprintf("consumer%d", s.WI), ConsumerMode{Events: true, Errors: true})
	}
}

// Close closes the watcher; afterwards only the model's final comparison remains.
func (s *SeqState) Close() {
	s.X.Close(s.W)
	// what was read before the close is compared now (whatever was still
	// undelivered may legitimately be dropped by Close); afterwards the
	// descriptor number may belong to someone else, so nothing more is
	// attributed to this Watcher
	s.X.Quiesce()
	s.closing = true
	s.Checkpoint()
	s.Closed = true
	s.Fd = -1
}

// opFlags: the native flags needed to observe each portable operation (inotify(7), Op's documentation).
var opFlags = map[uint32]uint32{1: inCREATE, 2: inMODIFY, 4: inDELETE | inDELETESELF, 8: inMOVEDTO | inMOVEDFROM | inMOVESELF, 16: inATTRIB,
	32: 0x20, 64: 0x1, 128: 0x8, 256: 0x10}

func flagsFor(ops uint32) uint32 {
	var f uint32
	for op, fl := range opFlags {
		if ops&op != 0 {
			f |= fl
		}
	}
	return f
}

func (s *SeqState) Add(p string) error { return s.AddOps(p, 0) }

// AddOps: ops == 0 is a plain Add (the default set).
func (s *SeqState) AddOps(p string, ops uint32) error {
	vs := s.vs()
	before := len(vs.Calls)
	snap := s.snapshot()
	var err error
	if ops == 0 {
		err = s.X.Add(s.W, p)
		ops = 0x1f
	} else {
		err = s.X.AddOps(s.W, p, ops)
	}
	if err == nil {
		if ino, e := statIno(filepath.Clean(p), true); e == nil {
			for _, m := range readMarks(s.Fd) {
				if m.ino == ino {
					if s.reqOps == nil {
						s.reqOps = map[int]uint32{}
					}
					s.reqOps[m.wd] |= ops
				}
			}
		}
	}
	s.M.Add(p, err, append([]vsys.Call{}, vs.Calls[before:]...), s.streamPos())
	if err != nil {
		if after := s.snapshot(); after != snap {
			s.problem("state-changed", "a failed Add changed the watch set", fmt.Sprintf("Add(%q)=%v\nbefore %s\nafter  %s", p, err, snap, after))
		}
	} else if ino, e := statIno(filepath.Clean(p), true); e == nil {
		// the kernel side is synchronous: right now a watch must sit on the inode the path names
		found := false
		for _, m := range readMarks(s.Fd) {
			if m.ino == ino {
				found = true
			}
		}
		if !found {
			// (also C01's business: whatever happens to that file from now on cannot be reported)
			s.problem("unwatched", "after a successful Add no kernel watch is on the inode the path names", fmt.Sprintf("Add(%q): marks %+v, inode %d", p, readMarks(s.Fd), ino))
		}
	}
	return err
}

func (s *SeqState) Remove(p string) error {
	vs := s.vs()
	before := len(vs.Calls)
	snap := s.snapshot()
	err := s.X.Remove(s.W, p)
	s.M.Remove(p, err, append([]vsys.Call{}, vs.Calls[before:]...), s.streamPos())
	if ErrClass(err) == "ErrNonExistentWatch" {
		if after := s.snapshot(); after != snap {
			s.problem("state-changed", "a failed Remove changed the watch set", fmt.Sprintf("Remove(%q)=%v\nbefore %s\nafter  %s", p, err, snap, after))
		}
	}
	return err
}

// snapshot renders the library's tables (no lock: only one thread runs).
func (s *SeqState) snapshot() string {
	t := fsnotify.VerifTables(s.W, false)
	if t.Unavailable {
		// the tables cannot be read (restructured): fall back to the kernel's view
		return fmt.Sprintf("marks %+v", readMarks(s.Fd))
	}
	var wds []int
	for k := range t.Wd {
		wds = append(wds, int(k))
	}
	sort.Ints(wds)
	var b strings.Builder
	for _, k := range wds {
		v := t.Wd[uint32(k)]
		fmt.Fprintf(&b, "wd%d={%d %q %#x %t} ", k, v.Wd, v.Path, v.Flags, v.Recurse)
	}
	var ps []string
	for p := range t.Path {
		ps = append(ps, p)
	}
	sort.Strings(ps)
	for _, p := range ps {
		fmt.Fprintf(&b, "%q->%d ", p, t.Path[p])
	}
	return b.String()
}

var warnOnce sync.Once

type kmark struct {
	wd   int
	ino  uint64
	mask uint32
}

func readMarks(fd int) []kmark {
	b, err := os.ReadFile(fmt.Sprintf("/proc/self/fdinfo/%d", fd))
	if err != nil {
		return nil
	}
	var out []kmark
	for _, l := range strings.Split(string(b), "\n") {
		if !strings.HasPrefix(l, "inotify ") {
			continue
		}
		var m kmark
		for _, f := range strings.Fields(l) {
			kv := strings.SplitN(f, ":", 2)
			if len(kv) != 2 {
				continue
			}
			switch kv[0] {
			case "wd":
				m.wd, _ = strconv.Atoi(kv[1])
			case "ino":
				m.ino, _ = strconv.ParseUint(kv[1], 16, 64)
			case "mask":
				v, _ := strconv.ParseUint(kv[1], 16, 32)
				m.mask = uint32(v)
			}
		}
		out = append(out, m)
	}
	sort.Slice(out, func(i, j int) bool { return out[i].wd < out[j].wd })
	return out
}

// Checkpoint must be called at quiescence.
func (s *SeqState) Checkpoint() {
	if s.Closed {
		return
	}
	x := s.X
	vs := s.vs()
	// 1. the reader must have caught up
	if !s.inj {
		if n := vsys.Fionread(s.Fd); n > 0 {
			s.problem("stuck", "reader did not drain the kernel queue at quiescence", fmt.Sprintf("%d bytes still queued; blocked: %+v", n, x.S.BlockedThreads()))
		}
	}
	// 2. new raw records -> expectations
	var exp []Expect
	for ; s.readSeen < len(vs.Reads); s.readSeen++ {
		if vs.ReadFd[s.readSeen] != s.Fd && !s.inj {
			continue
		}
		recs, perr := ParseRecords(vs.Reads[s.readSeen], s.readPos)
		if perr != "" {
			s.problem("engine", "raw stream does not parse: "+perr, "")
		}
		s.readPos += int64(len(vs.Reads[s.readSeen]))
		for _, r := range recs {
			e := s.M.Record(r)
			if e.Kind == "error" {
				s.expErrs++
			}
			if s.closing && e.Kind == "must" {
				e.Kind = "may"
			}
			exp = append(exp, e)
		}
	}
	// 3. what arrived
	var got []Got
	gotErrs := 0
	for ; s.logSeen < len(x.Log); s.logSeen++ {
		o := x.Log[s.logSeen]
		if o.W != s.WI {
			continue
		}
		switch o.Kind {
		case "event":
			got = append(got, Got{o.Name, o.Op, o.From})
		case "error":
			if o.Err == "ErrEventOverflow" {
				gotErrs++
			} else if o.Err != "injected" {
				s.problem("errors-chan", "value on Errors that is not a genuine failure: "+o.Err, o.What)
			}
		}
	}
	if !s.Skip["events"] {
		s.Problems = append(s.Problems, Align(exp, got)...)
	}
	if gotErrs != s.expErrs && !(s.closing && gotErrs < s.expErrs) {
		s.problem("overflow", fmt.Sprintf("ErrEventOverflow reported %d times for %d kernel overflow markers", gotErrs, s.expErrs), "")
	}
	s.expErrs = 0
	s.Problems = append(s.Problems, s.M.Problems...)
	s.M.Problems = nil
	if s.Closed || s.closing {
		return
	}
	// 4. WatchList
	l := x.WatchList(s.W)
	gotL := append([]string{}, l...)
	sort.Strings(gotL)
	want := s.M.List()
	if strings.Join(gotL, "\x00") != strings.Join(want, "\x00") {
		s.problem("watchlist", "WatchList differs from the watch-set specification", fmt.Sprintf("WatchList()=%q want %q", gotL, want))
	}
	// 5. tables and kernel marks
	t := fsnotify.VerifTables(s.W, false)
	var bad []string
	if t.Unavailable {
		t.Wd, t.Path = nil, nil
		s.TablesUnreadable = true
		warnOnce.Do(func() {
			fmt.Fprintln(os.Stderr, "WARNING: the verif hook cannot read the library's tables any more (restructured?): the table comparison (part of C12) is skipped; kernel marks, WatchList and events are still compared")
		})
	} else if len(t.Wd) != len(s.M.byWd) || len(t.Path) != len(s.M.bySpelling) {
		bad = append(bad, fmt.Sprintf("table sizes wd=%d path=%d, live watches %d", len(t.Wd), len(t.Path), len(s.M.byWd)))
	}
	for wd, e := range s.M.byWd {
		if t.Unavailable {
			break
		}
		tw, ok := t.Wd[uint32(wd)]
		if !ok || tw.Path != e.Spelling || int(tw.Wd) != wd {
			bad = append(bad, fmt.Sprintf("wd table lacks/garbles wd %d (%q): %+v", wd, e.Spelling, tw))
		}
		if pw, ok := t.Path[e.Spelling]; !ok || int(pw) != wd {
			bad = append(bad, fmt.Sprintf("path table maps %q to %d, want %d", e.Spelling, pw, wd))
		}
	}
	for p, wd := range t.Path {
		if _, ok := t.Wd[wd]; !ok {
			bad = append(bad, fmt.Sprintf("path table entry %q -> wd %d has no wd-table entry (dangling)", p, wd))
		}
	}
	if len(bad) > 0 {
		sort.Strings(bad)
		s.problem("tables", "internal tables out of step with the live watches: "+firstWords(bad[0]), strings.Join(bad, "; ")+"\n"+s.snapshot())
	}
	marks := readMarks(s.Fd)
	var mbad []string
	mk := map[int]kmark{}
	for _, m := range marks {
		mk[m.wd] = m
		if _, ok := s.M.byWd[m.wd]; !ok {
			mbad = append(mbad, fmt.Sprintf("kernel watch wd=%d ino=%d survives without a listed path (orphan)", m.wd, m.ino))
		}
	}
	for wd, e := range s.M.byWd {
		if _, ok := mk[wd]; !ok {
			mbad = append(mbad, fmt.Sprintf("listed path %q (wd %d) has no kernel watch", e.Spelling, wd))
		}
	}
	if len(mbad) > 0 {
		sort.Strings(mbad)
		s.problem("marks", "kernel watches out of step with WatchList: "+firstWords(mbad[0]), strings.Join(mbad, "; "))
	}
	// C15, subscription side: what the kernel holds for a watch is exactly what is needed to observe
	// everything requested for it (requests for a path that stays watched accumulate)
	for wd := range s.reqOps {
		if _, ok := mk[wd]; !ok {
			delete(s.reqOps, wd) // the watch ended
		}
	}
	for _, m := range marks {
		if ops, ok := s.reqOps[m.wd]; ok && m.mask&0xfff != flagsFor(ops) {
			s.problem("subscription", "kernel-side mask of a watch differs from the flags needed for the requested operations",
				fmt.Sprintf("wd %d: kernel mask %#x, requested operations %#x need %#x", m.wd, m.mask&0xfff, ops, flagsFor(ops)))
		}
	}
}

func firstWords(s string) string {
	// the message without numbers and quoted data, so signatures stay stable
	var b strings.Builder
	inq := false
	for _, r := range s {
		switch {
		case r == '"':
			inq = !inq
			if inq {
				b.WriteString("\"..\"")
			}
		case inq:
		case r >= '0' && r <= '9':
			if b.Len() > 0 && !strings.HasSuffix(b.String(), "#") {
				b.WriteByte('#')
			}
		default:
			b.WriteRune(r)
		}
	}
	return b.String()
}

// ---- canonical state (for explicit-state search) ----

// fsPicture walks the scratch directory: names, kinds, link structure. Inode
// numbers are replaced by the rank of first appearance in a sorted walk;
// sizes, modes and times are left out (the library never reads them).
func fsPicture(root string, fds map[string]int) (string, map[uint64]int) {
	rank := map[uint64]int{}
	var b strings.Builder
	var walk func(dir, rel string)
	walk = func(dir, rel string) {
		ents, _ := os.ReadDir(dir)
		for _, e := range ents {
			p := filepath.Join(dir, e.Name())
			var st syscall.Stat_t
			if syscall.Lstat(p, &st) != nil {
				continue
			}
			r, ok := rank[st.Ino]
			if !ok {
				r = len(rank)
				rank[st.Ino] = r
			}
			kind := "f"
			switch st.Mode & syscall.S_IFMT {
			case syscall.S_IFDIR:
				kind = "d"
			case syscall.S_IFLNK:
				t, _ := os.Readlink(p)
				kind = "l>" + strings.ReplaceAll(t, filepath.Dir(root), "$") // scratch roots differ between worker processes
			case syscall.S_IFIFO:
				kind = "p"
			}
			fmt.Fprintf(&b, "%s%s=%s#%d ", rel, e.Name(), kind, r)
			if kind == "d" {
				walk(p, rel+e.Name()+"/")
			}
		}
	}
	walk(root, "")
	var labels []string
	for l := range fds {
		if !strings.HasPrefix(l, "pipe-") {
			labels = append(labels, l)
		}
	}
	sort.Strings(labels)
	for _, l := range labels {
		var st syscall.Stat_t
		syscall.Fstat(fds[l], &st)
		r, ok := rank[st.Ino]
		if !ok {
			r = len(rank)
			rank[st.Ino] = r
		}
		fmt.Fprintf(&b, "fd:%s#%d ", l, r)
	}
	return b.String(), rank
}

// Canon renders the canonical state: filesystem picture (inodes by rank of
// first appearance in a sorted walk), kernel marks, and both library tables.
//
// Watch descriptors are renamed: a wd that has a kernel mark is named after the
// inode rank of that mark (one mark per inode and instance), any other wd by
// its rank among the leftovers. Correctness: the library uses a wd only as a
// map key (never its numeric order; map iteration is random anyway) and the
// kernel hands out fresh, larger numbers for every future watch, so any
// injective renaming preserves all futures. The cookie ring is left out: at
// quiescence no rename is half-processed, and every future cookie is fresh
// (a global kernel counter), so stale ring contents can never match again and
// the ring index only decides which stale slot is overwritten next.
func (s *SeqState) Canon() string {
	pic, rank := fsPicture(s.X.Root, s.X.fds)
	t := fsnotify.VerifTables(s.W, false)
	marks := readMarks(s.Fd)
	wr := map[int]string{}
	for _, m := range marks {
		if r, ok := rank[m.ino]; ok {
			wr[m.wd] = fmt.Sprintf("i%d", r)
		} else {
			wr[m.wd] = fmt.Sprintf("gone%d", m.wd) // mark on an inode that is no longer reachable (orphan: kept distinct)
		}
	}
	var rest []int
	for k := range t.Wd {
		if _, ok := wr[int(k)]; !ok {
			rest = append(rest, int(k))
		}
	}
	for _, wd := range t.Path {
		if _, ok := wr[int(wd)]; !ok {
			rest = append(rest, int(wd))
		}
	}
	sort.Ints(rest)
	for _, k := range rest {
		if _, ok := wr[k]; !ok {
			wr[k] = fmt.Sprintf("x%d", len(wr))
		}
	}
	var b strings.Builder
	b.WriteString(pic)
	b.WriteString("| ")
	var ents []string
	for k, v := range t.Wd {
		ents = append(ents, fmt.Sprintf("%s={%s %q %#x %t}", wr[int(k)], wr[int(v.Wd)], v.Path, v.Flags, v.Recurse))
	}
	sort.Strings(ents)
	b.WriteString(strings.Join(ents, " "))
	b.WriteString(" | ")
	var ps []string
	for p, wd := range t.Path {
		ps = append(ps, fmt.Sprintf("%q->%s", p, wr[int(wd)]))
	}
	sort.Strings(ps)
	b.WriteString(strings.Join(ps, " "))
	b.WriteString(" | ")
	var ms []string
	for _, m := range marks {
		ms = append(ms, fmt.Sprintf("k:%s:%#x", wr[m.wd], m.mask))
	}
	sort.Strings(ms)
	b.WriteString(strings.Join(ms, " "))
	return b.String()
}

func hashStr(s string) string {
	h := sha256.Sum256([]byte(s))
	return hex.EncodeToString(h[:12])
}

// ---- op interpreter ----

// DoOp performs one operation of the sequential alphabet. $W in a path
// stands for the absolute scratch root.
func (s *SeqState) DoOp(op string) {
	x := s.X
	f := strings.Fields(op)
	arg := func(i int) string {
		if i >= len(f) {
			return ""
		}
		a := strings.ReplaceAll(f[i], "$W", x.Root)
		return strings.ReplaceAll(a, "%20", " ")
	}
	switch f[0] {
	case "A":
		s.Add(arg(1))
	case "tick": // tick <seconds>: time passes
		n, _ := strconv.Atoi(arg(1))
		vsched.Advance(time.Duration(n) * time.Second)
	case "AW": // AW <path> <hex op set>
		v, _ := strconv.ParseUint(arg(2), 16, 32)
		s.AddOps(arg(1), uint32(v))
	case "R":
		s.Remove(arg(1))
	case "L":
		x.WatchList(s.W)
	case "touch":
		x.Touch(arg(1))
	case "write":
		x.Write(arg(1), "x")
	case "trunc":
		x.Truncate(arg(1))
	case "chmod":
		// toggle so that repeated chmods are real changes
		var st syscall.Stat_t
		mode := uint32(0o600)
		if syscall.Stat(arg(1), &st) == nil && st.Mode&0o777 == 0o600 {
			mode = 0o644
		}
		x.Chmod(arg(1), mode)
	case "rm":
		x.Rm(arg(1))
	case "mkdir":
		x.Mkdir(arg(1))
	case "rmdir":
		x.Rmdir(arg(1))
	case "mv":
		x.Mv(arg(1), arg(2))
	case "ln":
		x.Ln(arg(1), arg(2))
	case "sym":
		x.Symlink(arg(1), arg(2))
	case "resym": // retarget a symlink atomically enough: unlink + symlink in one step
		vsched.Step("resym " + arg(2))
		syscall.Unlink(arg(2))
		x.fs("resym", arg(1)+" "+arg(2), syscall.Symlink(arg(1), arg(2)))
	case "open":
		x.OpenFd(arg(1), arg(1))
	case "closefd":
		x.CloseFd(arg(1))
	case "rmr":
		x.RmAll(arg(1))
	case "mkfifo":
		x.Mkfifo(arg(1))
	case "inj":
		// inj wd:mask:cookie:name,wd:mask:cookie:name,...  (hex mask; name may be empty)
		var recs []Rec
		for _, r := range strings.Split(arg(1), ",") {
			q := strings.SplitN(r, ":", 4)
			wd, _ := strconv.Atoi(q[0])
			mask, _ := strconv.ParseUint(q[1], 16, 32)
			ck, _ := strconv.Atoi(q[2])
			recs = append(recs, Rec{Wd: int32(wd), Mask: uint32(mask), Cookie: uint32(ck), Name: q[3]})
		}
		x.Inject(s.W, recs...)
	case "fileburst":
		// n alternating chmod/write on one file in one harness step: n nameless 16-byte records
		n, _ := strconv.Atoi(arg(2))
		vsched.Step("fileburst " + arg(1))
		for i := 0; i < n; i++ {
			if i%2 == 0 {
				mode := uint32(0o600)
				if i%4 == 0 {
					mode = 0o644
				}
				syscall.Chmod(arg(1), mode)
			} else {
				fd, err := syscall.Open(arg(1), syscall.O_WRONLY|syscall.O_APPEND, 0)
				if err == nil {
					syscall.Write(fd, []byte("x"))
					syscall.Close(fd)
				}
			}
		}
		x.fs("fileburst", arg(1)+" "+arg(2), nil)
	case "dirburst":
		// n creations in one step: n named 32-byte records (names of at most 15 bytes)
		n, _ := strconv.Atoi(arg(2))
		vsched.Step("dirburst " + arg(1))
		for i := 0; i < n; i++ {
			fd, err := syscall.Open(fmt.Sprintf("%s/b%d", arg(1), i), syscall.O_WRONLY|syscall.O_CREAT|syscall.O_EXCL, 0o644)
			if err == nil {
				syscall.Close(fd)
			}
		}
		x.fs("dirburst", arg(1)+" "+arg(2), nil)
	case "abburst":
		// n alternating chmods on two files of a watched directory: n named records that cannot coalesce
		n, _ := strconv.Atoi(arg(3))
		vsched.Step("abburst")
		for i := 0; i < n; i++ {
			p := arg(1)
			if i%2 == 1 {
				p = arg(2)
			}
			mode := uint32(0o600)
			if (i/2)%2 == 0 {
				mode = 0o644
			}
			syscall.Chmod(p, mode)
		}
		x.fs("abburst", arg(1)+" "+arg(2)+" "+arg(3), nil)
	case "C":
		s.Close()
	case "consume":
		s.StartConsumer()
	case "nop":
	default:
		panic("unknown op " + op)
	}
}
