#!/bin/bash
# confirm_kq.sh <inbox-dir> <seeded-id> <property> : files a change to the kqueue back end under /verif/seeded/<id>/.
# The back end is not compiled on Linux, so "the existing tests do not notice" is established differently from
# confirm.sh: the change applies, cross-compiles and vets for freebsd/darwin, and the repository's testdata scripts
# replayed on the simulated kqueue still agree with their recorded BSD expectations (the suite's kqueue content).
# The demonstration test is kept but cannot be executed here.
set -u
export GOFLAGS=-mod=mod GOPROXY=off GOSUMDB=off GOTOOLCHAIN=local
IN="$1"; ID="$2"; PROP="$3"
OUT=/verif/seeded/$ID
# R = the tree the change is applied to: /repo, or a scratch worktree of it given in VERIF_REPO (vcheck honours that too)
R="${VERIF_REPO:-/repo}"
[ -z "$(git -C "$R" status --porcelain --untracked-files=no)" ] || { echo "$ID: $R is dirty"; exit 2; }
git -C "$R" apply "$IN/patch.diff" || { echo "$ID: REJECT patch does not apply"; exit 1; }
trap 'git -C "$R" checkout -- .' EXIT
( cd "$R" && go build ./... && GOOS=freebsd go build ./... && GOOS=freebsd go vet . && GOOS=darwin go build ./... ) || { echo "$ID: REJECT does not build"; exit 1; }
# demonstration must at least compile for freebsd
tmp=$(ls "$IN"/*_test.go 2>/dev/null | head -1)
if [ -n "$tmp" ]; then cp "$tmp" "$R/zz_demo_test.go"; ( cd "$R" && GOOS=freebsd go vet . ) ; rc=$?; rm -f "$R/zz_demo_test.go"; [ $rc = 0 ] || { echo "$ID: REJECT demonstration does not compile for freebsd"; exit 1; }; fi
/verif/vcheck "$PROP" --tier quick > /verif/.build/confirm-$ID.log 2>&1; rc=$?
agree=$(python3 -c "import json; c=json.load(open('/verif/evidence/$PROP.json'))['coverage']; print(c.get('scripts_replayed_agreeing_with_recorded_bsd_expectation'), len(c.get('scripts_disagreeing',[])))")
[ "$agree" = "41 0" ] || { echo "$ID: REJECT the recorded kqueue expectations notice the change ($agree)"; exit 1; }
mkdir -p "$OUT"
cp "$IN/patch.diff" "$OUT/patch.diff"
for t in "$IN"/*_test.go; do [ -f "$t" ] && cp "$t" "$OUT/"; done
[ -f "$IN/notes.md" ] && cp "$IN/notes.md" "$OUT/notes.md"
[ -f "$IN/patch.diff.orig" ] && cp "$IN/patch.diff.orig" "$OUT/patch.as-delivered.diff"
python3 - "$OUT" "$PROP" "$ID" "$rc" <<'PY'
import json,sys,subprocess,os
out,prop,mid,rc=sys.argv[1:5]
head=subprocess.run(['git','-C','/repo','rev-parse','--short','HEAD'],capture_output=True,text=True).stdout.strip()
notes=open(os.path.join(out,'notes.md')).read() if os.path.exists(os.path.join(out,'notes.md')) else ''
meta={"id":mid,"breaks_property":prop,"source":"independent sub-agent given only the property text and a scratch worktree",
 "confirmed_against_repo_commit":head,
 "confirmed":{"applies":True,"go build ./... (linux, freebsd, darwin)":"ok","GOOS=freebsd go vet .":"ok (also with the demonstration test)",
   "pinned suite":"backend_kqueue.go is not compiled on Linux, the suite cannot see the change",
   "testdata scripts replayed on the simulated kqueue":"all 41 replayable scripts still agree with their recorded kqueue/freebsd expectation with the change applied",
   "demonstration":"written for a BSD machine; NOT executed here (no kqueue) - the failing history is given in notes.md and is what the check reports"},
 "ported":os.path.exists(os.path.join(out,'patch.as-delivered.diff')),
 "notes_head":notes[:1500],"detected_by":[prop] if rc=='1' else [], "own_check_exit":int(rc)}
json.dump(meta,open(os.path.join(out,'meta.json'),'w'),indent=1)
PY
echo "$ID: filed (own check exit $rc)"
