#!/bin/bash
# confirm.sh <inbox-dir> <seeded-id> <property> : confirms a sub-agent's change in a scratch worktree
# (applies, builds, vets, runs the pinned suite, demo fails with / passes without) and files it under /verif/seeded/<id>/.
set -u
export GOFLAGS=-mod=mod GOPROXY=off GOSUMDB=off GOTOOLCHAIN=local
IN="$1"; ID="$2"; PROP="$3"
WT=/tmp/cf-$$-$ID
OUT=/verif/seeded/$ID
LOG=/verif/.build/confirm-$ID.log
git -C /repo worktree add -q --detach "$WT" HEAD || exit 2
cleanup() { git -C /repo worktree remove --force "$WT" >/dev/null 2>&1; }
trap cleanup EXIT
cd "$WT" || exit 2
res() { echo "$ID: $*"; echo "$ID: $*" >> /verif/.build/confirm-summary.txt; }
if ! git apply "$IN/patch.diff" 2>>"$LOG"; then
  # context moved because of later fix commits: try a three-way merge and keep the result as the ported patch
  git checkout -q -- . ; git apply -3 "$IN/patch.diff" >>"$LOG" 2>&1 && ! git diff --name-only --diff-filter=U | grep -q . || { res "REJECT patch does not apply (even three-way)"; exit 1; }
  git reset -q
  [ -f "$IN/patch.diff.orig" ] || cp "$IN/patch.diff" "$IN/patch.diff.orig"
  git diff > "$IN/patch.diff"
fi
go build ./... >>"$LOG" 2>&1 || { res "REJECT does not build"; exit 1; }
go vet . >>"$LOG" 2>&1 || { res "REJECT go vet fails"; exit 1; }
suite_ok=1
for i in 1 2; do
  go test -vet=off -count=1 -timeout 20m ./... > "$LOG.suite$i" 2>&1
  bad=$(grep -E "^\s*--- FAIL" "$LOG.suite$i" | grep -v -E "TestAdd( |$|/permission_denied)|TestWatchMultipleWrite" | head -5)
  if [ -n "$bad" ]; then
    # timing-sensitive tests fail now and then on a loaded machine: believe a failure only if it repeats in isolation
    names=$(echo "$bad" | sed -E 's/.*--- FAIL: ([^ ]+).*/\1/' | cut -d/ -f1 | sort -u | paste -sd'|')
    if go test -vet=off -count=3 -run "^($names)\$" . >> "$LOG" 2>&1; then bad=""; else suite_ok=0; echo "$bad" >> "$LOG"; fi
  fi
done
[ $suite_ok = 1 ] || { res "REJECT existing suite notices the change: $(echo $bad | head -c 200)"; exit 1; }
n=0
PKG=.
for t in "$IN"/*_test.go; do
  [ -f "$t" ] || continue
  # a demonstration for internal/ztest lives in that package
  if grep -q '^package ztest' "$t"; then PKG=./internal/ztest; fi
  cp "$t" "$WT/$PKG/zz_demo${n}_test.go" && n=$((n+1))
done
[ $n -gt 0 ] || { res "REJECT no demo test"; exit 1; }
timeout 300 go test -vet=off -count=1 -tags mutantdemo -run 'Demo|Mutant' -timeout 4m $PKG > "$LOG.with" 2>&1
with=$?
git checkout -q -- . 2>>"$LOG"
timeout 300 go test -vet=off -count=1 -tags mutantdemo -run 'Demo|Mutant' -timeout 4m $PKG > "$LOG.without" 2>&1
without=$?
if [ $with -eq 0 ]; then res "REJECT demo passes with the change"; exit 1; fi
if [ $without -ne 0 ]; then res "REJECT demo fails without the change (rc=$without)"; exit 1; fi
mkdir -p "$OUT"
cp "$IN/patch.diff" "$OUT/patch.diff"
for t in "$IN"/*_test.go; do cp "$t" "$OUT/"; done
[ -f "$IN/notes.md" ] && cp "$IN/notes.md" "$OUT/notes.md"
[ -f "$IN/patch.diff.orig" ] && cp "$IN/patch.diff.orig" "$OUT/patch.as-delivered.diff"
python3 - "$OUT" "$PROP" "$ID" <<'PY'
import json,sys,subprocess,os
out,prop,mid=sys.argv[1:4]
head=subprocess.run(['git','-C','/repo','rev-parse','--short','HEAD'],capture_output=True,text=True).stdout.strip()
notes=open(os.path.join(out,'notes.md')).read() if os.path.exists(os.path.join(out,'notes.md')) else ''
meta={"id":mid,"breaks_property":prop,"source":"independent sub-agent given only the property text and a scratch worktree",
 "confirmed_against_repo_commit":head,
 "confirmed":{"applies":True,"go build ./...":"ok","go vet .":"ok","pinned suite (2 runs, except TestAdd/permission_denied and flaky TestWatchMultipleWrite)":"passes with the change",
              "demonstration with the change":"FAILS","demonstration without the change":"passes"},
 "ported":os.path.exists(os.path.join(out,'patch.as-delivered.diff')),
 "needs_to_manifest":"see notes.md (first lines below)","notes_head":notes[:1500],"detected_by":[]}
json.dump(meta,open(os.path.join(out,'meta.json'),'w'),indent=1)
PY
res "CONFIRMED"
