#!/bin/bash
# withpatch.sh <patch.diff> <property>... : applies the patch to /repo, runs the quick checks, reverts.
P="$1"; shift
git -C /repo apply "$P" || { echo "patch does not apply"; exit 3; }
trap 'git -C /repo checkout -- . ' EXIT
for prop in "$@"; do
  /verif/vcheck "$prop" --tier quick 2>&1 | grep -E "^(VIOLATION|KNOWN-FINDING|ENGINE-ERROR|C[0-9]+ tier)" | cut -c1-300
  echo "exit($prop)=${PIPESTATUS[0]}"
done
