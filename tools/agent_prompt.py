#!/usr/bin/env python3
"""Prints the prompt for a mutant-writing sub-agent: property text + worktree only."""
import json, sys
pid, wt = sys.argv[1], sys.argv[2]
n = int(sys.argv[3]) if len(sys.argv) > 3 else 2
for l in open('/verif/properties.jsonl'):
    p = json.loads(l)
    if p['id'] == pid:
        break
print(f"""You are testing how robust a Go library's guarantees are. The library is fsnotify (cross-platform filesystem notifications); a private git worktree of it is at {wt} — work ONLY inside that directory (do not read or write /repo, /verif or any other checkout; do not look for other verification material on this machine).

Environment: no network. Before every go command run:
  export GOFLAGS=-mod=mod GOPROXY=off GOSUMDB=off GOTOOLCHAIN=local
The existing test suite is run with:  cd {wt} && go test -vet=off -count=1 ./...
(Known and to be ignored: TestAdd/permission_denied always fails because we run as root; TestWatchMultipleWrite is flaky.) Files verif_hooks*.go are build-tag-guarded helpers; leave them alone.

The property under study (the library is supposed to guarantee it):

  Title: {p['title']}
  Statement: {p['statement']}
  Quantified over: {p['quantifier']['text']}

Your task: produce {n} DIFFERENT realistic changes (bugs) to the library's non-test source in {wt} such that each one
  (a) still compiles (go build ./... and go vet ./... clean),
  (b) still passes the existing test suite (run it at least twice to be sure; apart from the two tests named above),
  (c) BREAKS the property above, and
  (d) needs something specific to manifest — a particular goroutine interleaving, a fault at a particular point, a multi-step sequence of operations, an unusual input, or two cooperating code sites that each look fine alone — NOT something ordinary use would expose at once. Think of the kind of regression a plausible refactoring, optimisation or "simplification" by a maintainer could introduce. Do not just delete a whole feature, and do not touch test files.

For each change deliver, in the directory {wt}/mutants/<k>/ (k = 1, 2, ...):
  - patch.diff : the change as a unified diff against the worktree's HEAD (git diff output, applies with `git apply`),
  - a demonstration: a Go test file demo_test.go (package fsnotify, Linux) or a small program that FAILS (deterministically or, if it needs an interleaving, with very high probability within a few seconds — use loops/retries, and say so) with the change applied and PASSES without it. The demonstration is extra material, not part of the change: keep it in mutants/<k>/ and copy it into the package directory only while running it,
  - notes.md : what the change is, why the existing tests do not notice, precisely what is needed for it to manifest (sequence / interleaving / input), and the exact commands you ran with their outcomes (suite with the change: pass; demo with the change: fail; demo without: pass).
Work on one change at a time: apply it, build, run the suite, run the demo, save the diff, then `git checkout -- .` (and remove copied demo files) before the next one, so that the worktree ends up clean apart from the mutants/ directory. Your final answer should list the mutants with one line each. Be economical: do not explore the codebase more than needed; the inotify back end is backend_inotify.go, shared code is shared.go and fsnotify.go.""")
