#!/usr/bin/env python3
"""Regenerates /verif/MANIFEST.json from the table below (kept next to the checks it describes)."""
import json, os, subprocess
V = os.path.dirname(os.path.dirname(os.path.abspath(__file__)))
props = [json.loads(l) for l in open(os.path.join(V, 'properties.jsonl'))]

E1 = "E1 vinst+vsched (real code under a cooperative scheduler, preemption-bounded exhaustive schedule enumeration)"
claimed = {
 "C05": dict(engine=E1, design="5 (C05), 2 (E1)",
   text="Every schedule, up to the stated preemption bound, of ~2100 closed scenarios {13 histories: nothing ever added, an injected unmount, idle, events or an error pending, a move in from an unwatched place followed by renames, injected overflow, read fault/short read/EOF} x {10 control programs incl. Close||Close, Close||Add, Add||Remove} x {6 consumer configurations} x {3 Events capacities} is executed on the instrumented real code against the real kernel; the property holds iff no maximal execution ends with an API call that has not returned. Also four sequential move histories (with and without a stored rename cookie, in bursts) whose oracle is just that every call returned. Exhaustive within the bound, which is the right level for a deadlock/liveness property of a 3-4 thread protocol; the thorough tier adds global-state-key pruning and, under a time budget per scenario, a pass without any preemption bound whose reach is reported separately in the evidence.",
   note="Trusted: vinst's mechanical rewrite (sync/channel/select/go/inotify syscalls -> shim), the shim's Go channel and mutex semantics, sequential consistency at synchronisation points. Bounds: preemption bound 1-2 (quick) / 2-3 (thorough), the listed scenario product. State-key pruning (thorough only) additionally trusts that shared memory is read under a mutex (checked by the lockset probes on every execution) and the key's description of kernel state (DESIGN section 2).",
   technique="stateless model checking: exhaustive preemption-bounded schedule enumeration of the real code under a controlled scheduler"),
 "C06": dict(engine=E1, design="5 (C06), 2 (E1)",
   text="Same executions as C05; on every one the shim enforces Go's channel protocol (send on / close of a closed channel is reported instead of panicking), and once a Close has returned the end state must have Events and Errors closed, the reader thread terminated, no value received after a consumer observed the close, and post-close Add/Remove/WatchList must answer ErrClosed/nil/nil.",
   note="Trusted: as C05. 'Promptly' is decided as: in the maximal execution nothing but non-blocking steps of the reader separate Close's return from the channel closes (no further environment input is needed).",
   technique="stateless model checking: exhaustive preemption-bounded schedule enumeration with channel-protocol invariants"),
 "C13": dict(engine=E1, design="5 (C13), 2 (E1)",
   text="Same executions as C05/C06 (all histories and schedules incl. Close||Close and Close racing Add/Remove) plus NewWatcher with inotify_init1 failing: after every maximal execution in which Close returned, the syscall seam's descriptor table must show no inotify descriptor still open and no library-spawned thread alive; a failed NewWatcher must leave both counts unchanged (seam accounting plus a before/after snapshot of the process's descriptors on regular paths); a Close that never returns counts as a violation; the notification descriptor must be close-on-exec (a child process would otherwise keep the instance and its watches alive after Close).",
   note="Trusted: descriptor accounting at the seam (every inotify_init1/os.NewFile/Close of the back end is rewritten to vsys); kernel watches die with the instance descriptor. 'Thousands of cycles' follows because the state after one create/close cycle equals the initial state (fixed point).",
   technique="stateless model checking: exhaustive schedule and init-fault enumeration with a resource-accounting oracle"),
}
E4 = "E4 vxgen+vpure (exhaustive enumeration of complete finite input domains against independent references)"
claimed.update({
 "C15": dict(engine=E4, design="5 (C15), 2 (E4)",
   text="Every input of every translation table is enumerated, none sampled: all 2^16 combinations of the 12 inotify event bits plus ISDIR/IGNORED/UNMOUNT/Q_OVERFLOW through the real newEvent; all 2^9 operation subsets x {follow, no-follow} through a real AddWith on the real kernel with the resulting kernel-side mask and inode read back from /proc/self/fdinfo, and every ordered triple of non-empty subsets of the five portable operations requested one after the other for one path (thorough: every ordered pair over all nine, every 4-tuple over the single ones and the default) with the mask compared after each call; all 2^11 kqueue fflags x link-name present/absent and the subscribed note set; all 2^13 Windows masks through newEvent and toWindowsFlags, all action codes 0..8 through toFSnotifyFlags and their composition; xSupports of all four back ends over all 2^9 subsets. Each against an independently written reference table (union-of-parts by construction). Not only from the initial state: E2 histories on the real code with a directory and two of its entries watched under every pair of 8 operation sets, and repeated requests with a Remove in between, judged by the sequential reference model (a record the kernel produced for what was subscribed must surface as its operation) and by 'kernel mask of each watch = flags for the union of what was requested for it'; and E1: two callers requesting different single-operation sets for the same path at the same time, every interleaving up to preemption bound 2, same end-state oracle.",
   note="The kqueue functions come from the full transplant of that back end (verif/gen/kq); the Windows/FEN functions are extracted textually from the working tree (vxgen) and compiled against constants parsed from golang.org/x/sys v0.13.0; if a change makes them depend on other back-end code the extraction fails as an engine error, not as a verdict. The request-side reference is the documented per-operation flag set.",
   technique="exhaustive input-space enumeration (depth-1 bounded model checking) against a reference table"),
 "C16": dict(engine=E4, design="5 (C16), 2 (E4)",
   text="Op.Has and Event.Has over the whole stated domain squared (quick: the 2^9 defined-bit values plus every single undefined bit and all-ones patterns; thorough: all 2^16 x 2^16 pairs = 4.3e9) against set intersection; Op.String over all 2^16 low values plus every defined subset x every high bit against a reference rendering whose order is taken from the rendering of the full set (so any fixed order passes), with injectivity on the 512 defined subsets and '[no events]' iff no defined bit; Event.Has also on events that carry the old name of a rename; Event.String over 13 names (empty, quotes, newline, invalid UTF-8, NUL, 255 bytes, containing the arrow) x 13 old names x 14 op values, plus every byte value alone and embedded and eight runes that %q escapes, as name, as old name and as both.",
   note="Names of operations are taken from the documentation (CREATE ... CLOSE_READ); spacing inside Event.String is not constrained, content and order are.",
   technique="exhaustive input-space enumeration against an independent reference"),
 "C20": dict(engine=E4, design="5 (C20), 2 (E4)",
   text="Diff is called on all ordered pairs of line sequences over {a, b, c, empty line} up to length 4 (quick) / 5 (thorough) in three whitespace variants, and on every two-letter sequence of length 7..10 (11) against all its single-line edits plus pairs of edits at opposite ends (separate hunks), and on all pairs of sequences up to length 3 (4) over eight lines whose content means something to printf, to a diff reader or to a tokenizer; the output is parsed, header ranges are checked against counted body lines and positions, leading/trailing context is bounded by 3, and the hunks are applied to the first text and compared with the second; empty output iff equal after TrimSpace. DiffMatch is called on all templates of <=3 tokens over {a, ., %(ANY), %(ANY 2), %(NUMBER), %(NUMBER 2), %(YEAR), newline} x all texts of <=3 (4) atoms and compared with an independent backtracking matcher.",
   note="diff.go is copied verbatim from the working tree. The parser accepts both the standard one-character markers and this implementation's six-character markers.",
   technique="exhaustive enumeration of input pairs up to a length bound with an apply-the-diff oracle"),
})
E2 = "E2 explicit-state BFS over operation sequences on the instrumented real code (harness/bfs.go, seq.go, ideal.go)"
claimed.update({
 "C04": dict(engine=E2, design="5 (C04), 2 (E2), 4",
   text="Breadth-first search over sequences of Add/Remove/WatchList calls (files, directories, symlinks to both, hard link, missing path, path through a non-directory, symlink loop, 256-byte name; f and d in seven equivalent spellings) interleaved with rm/mv/recreate/retarget-symlink/ln steps. Every transition replays the sequence on a fresh directory and a fresh Watcher of the instrumented real code, runs to quiescence, and compares with a reference watch-set model fed only by API results, the inotify syscalls seen at the seam, stat() and the raw bytes of each kernel read: WatchList as a set, error classes (errors.Is), failed calls leave the tables untouched, no panic, no duplicate events. States are deduplicated by a canonical form; a second phase applies every two-operation burst (no quiescence in between) from the shallow states, and all 4608 bursts of three and four operations over the log-rotation alphabet {rm, Remove, recreate, Add, rename away, rename back, hold open, close} are run from {Add f}. An orphan or missing kernel watch (fdinfo) counts here too ('releases the old one').",
   note="Bounds: full-spelling alphabet to depth 4 (quick) / 7 (thorough); one-spelling alphabet to depth 7 / fixed point; bursts of 2. Sequential histories only (concurrent callers are C07). The model follows the kernel in treating a watch as attached to the inode (hard-link corner cases are left out of the alphabet where property and kernel disagree).",
   technique="explicit-state model checking: BFS over operation sequences on the real code with canonical-state hashing and a reference model"),
 "C09": dict(engine=E2, design="5 (C09), 2 (E2), 4",
   text="BFS to the fixed point (no new canonical state; ~480 states, ~130k transitions incl. all two-operation bursts) over {rm f, mv f g, mv g f, touch f, Add f, Remove f, open f, close fd, write f, write g, rm -r parent, mkdir parent, Add/Remove parent, Add/Remove via symlink}: after every transition the reference model decides which kernel notifications must, may or must not surface, what WatchList shows and what Remove returns. Because the fixed point is reached, the verdict holds for histories of any length over this alphabet.",
   note="The open-descriptor rule and the 'unless the watched parent already did' rule are encoded as must/may in the model (DESIGN section 4).",
   technique="explicit-state model checking to a fixed point on the real code against a reference model"),
 "C12": dict(engine=E2, design="5 (C12), 2 (E2)",
   text="In every quiescent state reached by the BFS the kernel's own mark list of the inotify descriptor (/proc/self/fdinfo: wd, inode, mask), both library tables (via the verif hook) and the reference model must coincide: no orphan mark, no listed path without a mark, wd[path[p]].path == p, table sizes == live watches; right after each successful Add a mark must sit on the inode the path names. Alphabet includes re-Add with the old inode kept alive by a hard link or an open descriptor, symlink retargeting, rename cycles. Quick: depth 8 + bursts; thorough: fixed point (depth 31, 6856 states) - which is what decides 'any number of cycles'.",
   note="Kernel ground truth is fdinfo of the real descriptor; canonical-state abstraction argued in seq.go (wd renaming, cookie ring dropped at quiescence).",
   technique="explicit-state model checking with kernel-side ground truth compared in every state; fixed point for the cycle clause"),
})
EV = "E2 BFS over histories x batchings + exhaustive batch enumeration (harness/checks_events.go, seq.go, ideal.go)"
claimed.update({
 "C01": dict(engine=EV, design="5 (C01), 2 (E2), 4",
   text="(a) BFS over filesystem/API histories on a watched directory, a watched file and unwatched neighbours (create, write, truncate, chmod, unlink, mkdir, rmdir, rename within/into/out of/onto, hard link, symlink, unlink-while-open, rm -r, Add/Remove), then from every shallow state every burst of up to three operations read as one batch; API calls landing while the reader is parked mid-batch; (b) every ordered batch of one or two creations (three for the plain spelling) over names of byte length 1,15,16,17,...,254,255 plus space, dot, dash and 2/3/4-byte UTF-8; (c) bursts that fill the 64 KiB read buffer exactly, by one record less and one more, nameless, named and mixed; (d) an injected IN_Q_OVERFLOW at every position of a batch (thorough: one real overflow of 17000 notifications). The raw bytes of every kernel read are captured at the read seam and parsed independently; every must-deliver record must appear on Events exactly once with the documented Op and name.",
   note="Ground truth is the kernel's own record stream as handed to the library's read (captured without passing through library code) plus fdinfo for what is subscribed (C12/C15). Records raced by a Remove/re-Add that returned later are 'may'.",
   technique="explicit-state model checking (BFS over histories x batchings) plus exhaustive enumeration of input-shape batches on the real code against a reference translation of the raw kernel stream"),
 "C02": dict(engine=EV, design="5 (C02), 4",
   text="Same executions as C01; every received event must be backed by a kernel record of a watch that was listed when the record was caused (or a direct child), have a non-empty Op, not stem from IN_IGNORED/IN_UNMOUNT/IN_Q_OVERFLOW, not stem from an unwatched sub-directory, and not stem from a change made after Remove of its watch returned (stream positions are compared with the position at which Remove returned). An event whose name is not byte-exactly a watched path or a direct child (padding bytes, wrong prefix) counts as a phantom; the recursive-watch search of C19 is run as well and an event under a path that does not exist counts here too.",
   note="As C01.", technique="explicit-state model checking plus exhaustive batch enumeration; must-not side of the reference model"),
 "C03": dict(engine=EV, design="5 (C03), 4",
   text="Same executions as C01 (all batchings up to bursts of three, capacities 0/1/2 with the consumer attached late); the received sequence must equal the translated kernel sequence in order - optional records may be dropped but never moved; Rename(old) immediately followed by Create(new) for moves between watched names (checked explicitly for the two halves of every kernel-adjacent rename, also when a directory and its entry are both watched). Plus E1 family order: three-operation histories x Events capacity default/1/2/64 x every interleaving of harness, reader and consumer up to preemption bound 2 (consumer pace is nothing but schedule), same oracle.",
   note="Consumer pace beyond 'eager' and 'late' is schedule, covered by the E1 scenarios of C05-C07.", technique="explicit-state model checking with an order-preserving alignment oracle"),
 "C08": dict(engine=EV, design="5 (C08)",
   text="The complete product {10 spellings of the watched directory: relative, ./, //, x/../, trailing slash, /., absolute, relative symlink, absolute symlink, ./link/} x {27 entry names covering every padded length 16..256 and multi-byte UTF-8} x {single record, every ordered pair} run with the scratch directory as cwd; self events of a watched file under 7 spellings incl. through a symlink; first-added-wins histories (link/target, hard link/file, several spellings, retargeted links). Expected name = filepath.Clean(argument) [+ '/' + entry], compared byte for byte.",
   note="Entry names come from the raw kernel records; the expected spelling from the Add argument only.", technique="exhaustive enumeration of a finite spelling x name-shape x batch-position product on the real code"),
 "C10": dict(engine=EV + " + E1", design="5 (C10)",
   text="E1: every schedule up to preemption bound 2 (1 for the two-caller program) of rename-then-delete, rename-then-rmdir, delete-then-recreate and burst histories with consumers on Errors (the reader's position relative to each step is what 'speed' means), judged up to the first Close call; the same for an injected overflow with nobody / only Events / both being consumed (control calls must still return). E2: the end-of-watch BFS with all two-operation bursts to its fixed point; the named histories in every batching; an injected IN_Q_OVERFLOW at every position of a batch followed by more records and Add/Remove/WatchList. Oracle: values on Errors = one ErrEventOverflow (errors.Is) per kernel overflow marker + injected read faults, nothing else.",
   note="A Close racing the IN_MOVE_SELF clean-up can still put EBADF on Errors; C10 quantifies over filesystem histories and reader speeds, not over Close, so this is noted in DESIGN.md and not judged here.", technique="stateless model checking (schedule enumeration) plus explicit-state BFS on the real code"),
 "C11": dict(engine=EV, design="5 (C11)",
   text="BFS over moves within/between/into/out of two watched directories with creates and links (+ bursts of three); chains of 9..25 moves (ring wrap), singly and in bursts; 0..12 unmatched move-outs before a move-in, create, link or matched move; an API call landing between the two halves of a move (reader parked on the Rename); all 6 and 90 interleavings of the MOVED_FROM/MOVED_TO halves of 2 and 3 simultaneous moves, injected as crafted records for really registered wds, whole and split over two reads. Oracle: a Create from a MOVED_TO carries exactly the name of the delivered Rename with the same cookie; every other Create carries none.",
   note="Interleaved halves are injected because the interleaving happens inside the kernel.", technique="explicit-state BFS plus exhaustive enumeration of injected record interleavings"),
 "C14": dict(engine=EV, design="5 (C14)",
   text="Differential: every history of one or two operations over ten operations (thorough: three), as a burst and step by step, with Events capacity default,0,1,2,4,...,65536; single bursts additionally with the consumer attached only afterwards (absorb clause: a buffer that can hold the history leaves nothing in the kernel queue). Runs with equal read points must deliver byte-identical sequences; every run must match the reference model; cap(Events) must equal the request. Lagging consumers on buffered Watchers (every step read, nothing received until the end) for all triples of six operations x capacities 1,2,8,64. Other Watchers created, used and closed at every position of three histories, incl. API calls on a closed Watcher whose descriptor number has been recycled (synchronous close), other Watchers under other spellings and with differently numbered watch descriptors, a 250-byte entry name among the operations. E1: two Watchers whose descriptors are numbered differently for the same paths, every interleaving of the harness and the two readers up to preemption bound 2 - anything shared between Watchers (read buffer, cookie ring) shows as wrong names or old names.",
   note="Other Watchers live in the same process.", technique="exhaustive differential enumeration over configurations on the real code"),
})
claimed.update({
 "C07": dict(engine=E1, design="5 (C07), 3",
   text="Every schedule up to preemption bound 2 (1 for two-step filesystem threads in the quick tier) of ~900 closed programs {initial watch set} x {two API threads with one or two calls each from Add/Remove/WatchList/Close over paths forced to collide: one directory in two spellings, a file and its symlink} x {filesystem thread: none, rm f, rm+recreate f, mv f g, create+delete in the watched directory}. Per execution: (i) lockset assertions inserted by vinst in front of every statement touching the watch tables or the cookie ring (state guarded by a single lock: equivalent to race freedom on it), (ii) no panic in any thread, (iii) no call left blocked, (iv) the call/return history with scheduler time stamps and filesystem steps as zero-width operations is checked for linearizability against a nondeterministic sequential watch-set model with porcupine v1.3.0 (zombie entries of deleted/renamed files are the nondeterminism; calls overlapping a Close may fail with any error), (v) WatchList never shows a duplicate or a never-added path, (vi) dynamic (Eraser) lockset: for every map, by identity, the mutexes held at every access are intersected; two threads and an empty intersection is a report - this also sees a map reached through an alias outside the lock.",
   note="Races on state outside the lockset specification (vinst.DefaultGuards) and weak-memory effects are not decided by this check; the Go race detector cannot be combined with the cooperative scheduler (hand-offs are happens-before edges).",
   technique="stateless model checking: preemption-bounded schedule enumeration of the real code with lockset assertions and a porcupine linearizability check per execution"),
})
claimed.update({
 "C19": dict(engine=E2, design="5 (C19)",
   text="BFS (depth 3 quick / 5 thorough, ~27k states) over histories on two recursive roots r and r2 (r2 shares r's string prefix) whose trees contain prefix-sharing siblings dir1/dir10 and sub/sub2, each with children: mkdir one level at a time, rename of inner directories within the tree (also into a sibling), file operations in every directory, re-mkdir of a moved-away name, Remove/Add of either root, quiescence after every step. Oracle per state: every event carries the true current path of its directory (taken from an inode walk of the real tree, wd->inode from the syscall seam) with the documented Op and old name; the kernel's mark list (fdinfo) equals exactly the set of directories of the active trees (a new directory is covered once its Create was delivered, a removed root leaves nothing behind, the other root keeps everything); WatchList stays inside the active trees.",
   note="Recursion is switched on through the verif hook (enableRecurse). mkdir -p bursts, directories moved across the tree boundary and Remove of an inner directory of a recursive watch are not judged (the property excludes or does not mention them).",
   technique="explicit-state model checking: BFS on the real code with kernel-side coverage ground truth"),
})
E3 = "E3 kqueue back end transplanted onto a simulated kqueue (engine/kqsim, kharness) + BFS / schedule enumeration"
claimed.update({
 "C17": dict(engine=E3, design="5 (C17), 2 (E3)",
   text="backend_kqueue.go, shared.go, fsnotify.go and system_bsd.go are copied from the working tree at check time, instrumented like the inotify back end and compiled on Linux against a simulated kqueue (descriptor table with lowest-free allocation, knotes, OR-ed pending fflags, activation order). (a) BFS (depth 4 quick / 7 thorough) over Add/Remove/Close and filesystem steps on a directory holding files, a sub-directory, a symlink, a FIFO and an unreadable file: in every state the simulator's descriptor table must equal the back end's wd table, every open descriptor must still be warranted (its file not deleted/renamed, it or its directory still user-watched), WatchList must be exactly the user's paths, nothing may be open after Close, and descriptors and all five tables must be empty once everything was removed. (b) Every schedule up to preemption bound 1 (thorough: 2 with global-state-key pruning, then without any bound under a time budget per scenario; how far that got is in the evidence) of Close racing Remove/Add/Close and/or a filesystem change being handled by the reader, with the same end-state oracle. The simulation is bound to reality by replaying all 66 testdata scripts of the working tree: the 41 that run on FreeBSD agree with their recorded freebsd/kqueue/default expectation (count and any disagreement are in the evidence).",
   note="Fidelity of the simulated kernel is bounded by the recorded expectations; NOTE rules: create/symlink/mkfifo -> WRITE on the directory, mkdir/rmdir -> WRITE|LINK (+DELETE on the removed directory), unlink -> WRITE + DELETE, rename -> WRITE on both directories, RENAME on the vnode, DELETE on an overwritten target, write -> WRITE|EXTEND, truncate/chmod -> ATTRIB; hard links left out.",
   technique="explicit-state BFS plus preemption-bounded schedule enumeration of the transplanted back end on a simulated kernel validated by replaying recorded BSD expectations"),
 "C18": dict(engine=E3, design="5 (C18), 2 (E3)",
   text="BFS (depth 5 quick / 9 thorough; the symlinked-watch-path search reaches its fixed point) over create/truncate/write/chmod/remove/rename within, into, out of, onto and across two watched directories, mkdir/rmdir, changes in an unwatched sub-directory, rm -r of the watched directory, with a pre-existing FIFO present, quiescence after every step. Oracle per step, written from the property and independent of the back end: Create exactly once per new entry, never for entries present at Add (incl. the FIFO) and never again on later changes; then Write/Chmod/Remove/Rename for announced entries under the user's spelling (also through a symlinked watch path); overwrite-by-rename = Remove + Rename + Create; remove-and-recreate = Remove then Create; removing the directory = Remove for it and each announced entry; compared as multisets per step (as the recorded expectations are). Same script-replay validation as C17.",
   note="Symbolic links, FIFOs and unreadable files as the *subject* of an operation are not judged (recorded as known-broken / unwatchable on kqueue); bursts are not judged because kqueue merges notes per vnode.",
   technique="explicit-state BFS of the transplanted back end on a simulated kernel validated by replaying recorded BSD expectations, against an independent per-operation reference"),
})
NA_REASON = "check not built yet (work in progress; DESIGN.md section 5 gives the planned decision procedure)"

def main():
    hooks_commits = subprocess.run(["git", "-C", "/repo", "log", "--format=%H %s", "--", "verif_hooks.go", "verif_hooks_linux.go"],
                                   capture_output=True, text=True).stdout.strip().splitlines()
    m = {
      "version": 1,
      "setup_cmd": "./setup.sh",
      "hooks": {
        "guard": "verif",
        "enable": "go build -tags verif (files verif_hooks.go, verif_hooks_linux.go carry //go:build verif); the scheduler instrumentation is not in /repo: vinst regenerates it from the working tree on every check",
        "baseline_off_cmd": "cd /repo && GOFLAGS=-mod=mod GOPROXY=off go test -json -vet=off -count=1 -timeout 25m ./...",
        "source_commits": [c.split()[0] for c in hooks_commits],
        "add_only": True,
      },
      "engines": [
        {"name": "E4", "path": "cmd/vxgen cmd/vpure", "serves_properties": ["C15", "C16", "C20"],
         "kind_free_text": "extraction of pure functions from the working tree + exhaustive enumeration of their finite input domains against independent references"},
        {"name": "E2", "path": "harness/bfs.go harness/seq.go harness/ideal.go harness/fam_seq.go", "serves_properties": ["C04", "C09", "C12", "C19"],
         "kind_free_text": "explicit-state BFS over operation sequences: successors by replay on fresh kernel objects, canonical-state hashing, reference model fed by seam syscalls and raw kernel reads"},
        {"name": "E2-events", "path": "harness/checks_events.go harness/seq.go harness/ideal.go", "serves_properties": ["C01", "C02", "C03", "C08", "C10", "C11", "C14"],
         "kind_free_text": "BFS over histories x batchings, exhaustive name-shape / buffer-boundary / injected-record enumeration, differential runs over configurations; reference model over the raw kernel stream"},
        {"name": "E3", "path": "engine/kqsim kharness cmd/vgen (genKq)", "serves_properties": ["C17", "C18"],
         "kind_free_text": "transplant of the kqueue back end onto a simulated kqueue kernel driven by real filesystem operations; validated by replaying the repository's testdata scripts against their recorded BSD expectations"},
        {"name": "E1", "path": "engine/vinst engine/vsched engine/vsys harness", "serves_properties": sorted(k for k, v in claimed.items() if v["engine"].startswith("E1")),
         "kind_free_text": "source-to-source instrumentation of the working tree + cooperative scheduler + preemption-bounded DFS (iterative context bounding), 16 worker processes"},
      ],
      "checks": [],
      "notes": "Exit codes of ./vcheck: 0 held, 1 VIOLATION, 2 engine error (never a verdict). Known findings: known_findings.json.",
      "not_applicable": [],
    }
    for p in props:
        pid = p["id"]
        if pid in claimed:
            c = claimed[pid]
            m["checks"].append({
              "property_id": pid,
              "quick_cmd": f"./vcheck {pid} --tier quick",
              "thorough_cmd": f"./vcheck {pid} --tier thorough",
              "evidence_file": f"/verif/evidence/{pid}.json",
              "replay_cmd_template": "./vcheck replay {path}",
              "engine": c["engine"],
              "level_claimed": {"category": "model_checking", "text": c["text"], "design_ref": c["design"]},
              "level_note": c["note"],
              "technique": c["technique"],
            })
        else:
            m["not_applicable"].append({"property_id": pid, "reason": NA_REASON})
    json.dump(m, open(os.path.join(V, "MANIFEST.json"), "w"), indent=1)
    print("claimed", len(m["checks"]), "pending", len(m["not_applicable"]))

main()
