// Package kharness drives the kqueue back end of fsnotify, transplanted from
// the working tree (verif/gen/kq) and compiled against the simulated kqueue
// kernel (verif/engine/kqsim/unix), under the cooperative scheduler.
package kharness

import (
	"fmt"
	"os"
	"path/filepath"
	"sort"
	"strings"
	"syscall"

	ksim "verif/engine/kqsim/unix"
	"verif/engine/vsched"
	kq "verif/gen/kq"
	"verif/harness"
)

type Got struct {
	Name string
	Op   uint32
}

// KState is one kqueue Watcher under test plus the reference bookkeeping.
type KState struct {
	X        *harness.X
	W        *kq.Watcher
	K        *ksim.Kernel
	Closed   bool
	logSeen  int
	Problems []harness.Problem
	// reference for C17/C18
	User   map[string]bool            // cleaned user-added paths whose watch is alive
	Known  map[string]map[string]bool // watched directory (user spelling) -> entry names already announced or present at Add
	ended  map[uint64]bool            // inodes whose own name was unlinked or renamed by a harness step (their watch has ended)
	stale  map[string]bool            // Adds that returned nil for a path that did not exist (any more): listed or not, both are fine
	expect []Got                      // events the reference model expects for the current step
	judge  bool                       // the current step is one the C18 reference model speaks about
}

func (s *KState) problem(cat, sig, detail string) {
	s.Problems = append(s.Problems, harness.Problem{Cat: cat, Sig: sig, Detail: detail})
}

func NewKState(x *harness.X) (*KState, error) {
	w, err := kq.NewWatcher()
	if err != nil {
		return nil, err
	}
	s := &KState{X: x, W: w, K: ksim.Get(), User: map[string]bool{}, Known: map[string]map[string]bool{}, ended: map[uint64]bool{}}
	vsched.RegisterTree(w, "K0") // stable names for every mutex and channel of this Watcher (state key)
	vsched.NameChan(w.Events, "Events")
	vsched.NameChan(w.Errors, "Errors")
	s.labelTree()
	x.AtEnd = append(x.AtEnd, s.K.Cleanup) // release the real descriptors pinning inodes
	x.KeyExtra = s.keyExtra
	x.SharedExtra = s.tablesKey
	vsched.GoNamed("consumer", func() {
		evOpen, erOpen := true, true
		for evOpen || erOpen {
			var cases []vsched.Case
			var kinds []int
			if evOpen {
				cases = append(cases, vsched.CaseRecv(w.Events))
				kinds = append(kinds, 0)
			}
			if erOpen {
				cases = append(cases, vsched.CaseRecv(w.Errors))
				kinds = append(kinds, 1)
			}
			i, v, ok := vsched.Select(false, cases...)
			switch kinds[i] {
			case 0:
				if !ok {
					evOpen = false
					x.Record(harness.Obs{Kind: "events-closed"})
					continue
				}
				e := vsched.SelVal(w.Events, v)
				x.Record(harness.Obs{Kind: "event", Name: e.Name, Op: uint32(e.Op), From: kq.VerifRenamedFrom(e), What: e.String()})
			case 1:
				if !ok {
					erOpen = false
					x.Record(harness.Obs{Kind: "errors-closed"})
					continue
				}
				err := vsched.SelVal(w.Errors, v)
				x.Record(harness.Obs{Kind: "error", Err: fmt.Sprint(err), What: fmt.Sprint(err)})
			}
		}
	})
	return s, nil
}

// ---------- API wrappers ----------

func errClass(err error) string {
	switch {
	case err == nil:
		return ""
	case strings.Contains(err.Error(), "non-existent watch"):
		return "ErrNonExistentWatch"
	case strings.Contains(err.Error(), "already closed"):
		return "ErrClosed"
	}
	return "other:" + err.Error()
}

func lstat(p string) (st syscall.Stat_t, ok bool) {
	ok = syscall.Lstat(p, &st) == nil
	return
}

func stat(p string) (st syscall.Stat_t, ok bool) {
	ok = syscall.Stat(p, &st) == nil
	return
}

func isDir(st syscall.Stat_t) bool { return st.Mode&syscall.S_IFMT == syscall.S_IFDIR }

func (s *KState) Add(p string) error {
	id := s.X.BeginCall("Add", p, 0)
	err := s.W.Add(p)
	s.X.EndCall(id, "Add", p, 0, errClass(err), nil)
	cp := filepath.Clean(p)
	if err == nil {
		// a path whose Add returned nil is a path the user added, also when the back end accepted it on the
		// strength of a stale entry (its directory was renamed a moment ago and the reader has not got there yet)
		first := !s.User[cp]
		if _, ok := stat(cp); !ok {
			// accepted on the strength of an entry whose end (deletion, rename of its directory) the reader
			// has not handled yet: nothing is demanded about such a path
			s.optional(cp)
			return err
		}
		s.User[cp] = true
		if st, ok := stat(cp); ok {
			if isDir(st) && first {
				k := map[string]bool{}
				ents, _ := os.ReadDir(cp)
				for _, e := range ents {
					k[e.Name()] = true
				}
				s.Known[cp] = k
			}
		}
	}
	return err
}

func (s *KState) Remove(p string) error {
	id := s.X.BeginCall("Remove", p, 0)
	err := s.W.Remove(p)
	s.X.EndCall(id, "Remove", p, 0, errClass(err), nil)
	cp := filepath.Clean(p)
	if s.Closed {
		if err != nil {
			s.problem("postclose", "Remove on a closed Watcher returned an error", fmt.Sprint(err))
		}
		return err
	}
	if s.User[cp] {
		if err != nil {
			s.problem("errclass", "Remove of a user-added path failed", fmt.Sprintf("Remove(%q) = %v", p, err))
		}
		delete(s.User, cp)
		delete(s.Known, cp)
	}
	return err
}

func (s *KState) Close() {
	id := s.X.BeginCall("Close", "", 0)
	err := s.W.Close()
	s.X.EndCall(id, "Close", "", 0, errClass(err), nil)
	s.Closed = true
}

func (s *KState) List() []string {
	id := s.X.BeginCall("WatchList", "", 0)
	l := s.W.WatchList()
	cp := append([]string{}, l...)
	sort.Strings(cp)
	s.X.EndCall(id, "WatchList", "", 0, "", cp)
	return cp
}

// ---------- filesystem driver: the real operation plus FreeBSD's vnode notes ----------

// watchedDir returns the user spelling under which the directory containing p is watched (C18 reference).
func (s *KState) dirOf(p string) (spelling string, ok bool) {
	d := filepath.Dir(p)
	dst, ok1 := stat(d)
	if !ok1 {
		return "", false
	}
	for u := range s.User {
		if ust, ok2 := stat(u); ok2 && ust.Ino == dst.Ino && isDir(ust) {
			return u, true
		}
	}
	return "", false
}

func (s *KState) optional(p string) {
	if s.stale == nil {
		s.stale = map[string]bool{}
	}
	s.stale[p] = true
}

// want: kqueue has one descriptor per path, so a path that is watched both in its own right and as an
// entry of a watched directory still yields one event per change.
func (s *KState) want(name string, op uint32) {
	for _, g := range s.expect {
		if g.Name == name && g.Op == op {
			return
		}
	}
	s.expect = append(s.expect, Got{name, op})
}

const (
	opCreate = 1
	opWrite  = 2
	opRemove = 4
	opRename = 8
	opChmod  = 16
)

// entryName is the event name of entry p of a watched directory, in the user's spelling.
func entryName(spelling, p string) string { return spelling + "/" + filepath.Base(p) }

func (s *KState) parentIno(p string) uint64 {
	st, _ := stat(filepath.Dir(p))
	return st.Ino
}

func (s *KState) fsnote(what, arg string, err error) {
	s.labelTree() // no scheduling point since the operation itself: nobody has seen a new inode unlabelled
	s.X.FS(what, arg, err)
}

// userFile: is p itself a user-added (non-directory) path?
func (s *KState) userSelf(p string) (string, bool) {
	pst, ok := stat(p)
	if !ok {
		return "", false
	}
	for u := range s.User {
		if ust, ok2 := stat(u); ok2 && ust.Ino == pst.Ino {
			return u, true
		}
	}
	return "", false
}

func (s *KState) Touch(p string) {
	vsched.Step("touch " + p)
	_, existed := stat(p)
	d, din := s.dirOf(p)
	self, isSelf := s.userSelf(p)
	par := s.parentIno(p)
	fd, err := syscall.Open(p, syscall.O_RDWR|syscall.O_CREAT|syscall.O_TRUNC|syscall.O_CLOEXEC, 0o644)
	if err == nil {
		syscall.Close(fd)
		if !existed {
			s.K.Post(par, ksim.NOTE_WRITE)
			if din {
				s.want(entryName(d, p), opCreate)
				s.Known[d][filepath.Base(p)] = true
			}
		} else {
			st, _ := stat(p)
			s.K.Post(st.Ino, ksim.NOTE_ATTRIB)
			if din && s.Known[d][filepath.Base(p)] {
				s.want(entryName(d, p), opChmod)
			}
			if isSelf {
				s.want(self, opChmod)
			}
		}
	}
	s.fsnote("touch", p, err)
}

func (s *KState) Write(p string) {
	vsched.Step("write " + p)
	d, din := s.dirOf(p)
	self, isSelf := s.userSelf(p)
	st, ok := stat(p)
	fd, err := syscall.Open(p, syscall.O_WRONLY|syscall.O_APPEND|syscall.O_CLOEXEC, 0)
	if err == nil {
		syscall.Write(fd, []byte("x"))
		syscall.Close(fd)
		if ok {
			s.K.Post(st.Ino, ksim.NOTE_WRITE|ksim.NOTE_EXTEND)
			if st.Mode&syscall.S_IFMT == syscall.S_IFREG {
				if din && s.Known[d][filepath.Base(p)] && st.Mode&0o444 != 0 {
					s.want(entryName(d, p), opWrite)
				}
				if isSelf {
					s.want(self, opWrite)
				}
			}
		}
	}
	s.fsnote("write", p, err)
}

func (s *KState) Chmod(p string, mode uint32) {
	vsched.Step("chmod " + p)
	d, din := s.dirOf(p)
	self, isSelf := s.userSelf(p)
	st, ok := stat(p)
	err := syscall.Chmod(p, mode)
	if err == nil && ok {
		s.K.Post(st.Ino, ksim.NOTE_ATTRIB)
		if din && s.Known[d][filepath.Base(p)] && st.Mode&0o444 != 0 && st.Mode&syscall.S_IFMT != syscall.S_IFIFO {
			s.want(entryName(d, p), opChmod)
		}
		if isSelf {
			s.want(self, opChmod)
		}
	}
	s.fsnote("chmod", p, err)
}

// removeOne unlinks / rmdirs one path and posts the notes.
func (s *KState) removeOne(p string) error {
	st, ok := lstat(p)
	if !ok {
		return syscall.ENOENT
	}
	d, din := s.dirOf(p)
	par := s.parentIno(p)
	var err error
	defer func() {
		if err == nil {
			s.ended[st.Ino] = true
		}
	}()
	if isDir(st) {
		// a watched directory going away takes its announced entries' watches with it
		self, isSelf := s.userSelf(p)
		err = syscall.Rmdir(p)
		if err == nil {
			s.K.Post(par, ksim.NOTE_WRITE|ksim.NOTE_LINK)
			s.K.Post(st.Ino, ksim.NOTE_DELETE)
			if isSelf {
				s.want(self, opRemove)
				delete(s.User, self)
				delete(s.Known, self)
			}
		}
	} else {
		self, isSelf := s.userSelf(p)
		if st.Mode&syscall.S_IFMT == syscall.S_IFLNK {
			isSelf = false
		}
		err = syscall.Unlink(p)
		if err == nil {
			s.K.Post(par, ksim.NOTE_WRITE)
			s.K.Post(st.Ino, ksim.NOTE_DELETE)
			if isSelf {
				s.want(self, opRemove)
				delete(s.User, self)
				// recorded kqueue behaviour (testdata/watch-file/overwrite-watched-file): if a file is there
				// again when the reader handles the deletion, it is watched in the old one's stead. Whether that
				// happens depends on timing, so the path may or may not stay listed - but an open descriptor
				// for it is only in order if it does.
				s.optional(self)
			}
		}
	}
	if err == nil && din && s.Known[d][filepath.Base(p)] {
		watchable := st.Mode&syscall.S_IFMT == syscall.S_IFREG || isDir(st)
		if watchable && st.Mode&0o444 != 0 {
			s.want(entryName(d, p), opRemove)
		} else {
			s.judge = false // entries the back end cannot open (FIFO, unreadable, link): documented gaps, not judged
		}
		delete(s.Known[d], filepath.Base(p))
	}
	return err
}

func (s *KState) Rm(p string) {
	vsched.Step("rm " + p)
	s.fsnote("rm", p, s.removeOne(p))
}

func (s *KState) Rmdir(p string) {
	vsched.Step("rmdir " + p)
	s.fsnote("rmdir", p, s.removeOne(p))
}

func (s *KState) RmAll(p string) {
	vsched.Step("rm -r " + p)
	var walk func(q string)
	walk = func(q string) {
		st, ok := lstat(q)
		if !ok {
			return
		}
		if isDir(st) {
			ents, _ := os.ReadDir(q)
			for _, e := range ents {
				walk(filepath.Join(q, e.Name()))
			}
		}
		s.removeOne(q)
	}
	walk(p)
	s.fsnote("rm-r", p, nil)
}

func (s *KState) Mkdir(p string) {
	vsched.Step("mkdir " + p)
	d, din := s.dirOf(p)
	par := s.parentIno(p)
	err := syscall.Mkdir(p, 0o755)
	if err == nil {
		s.K.Post(par, ksim.NOTE_WRITE|ksim.NOTE_LINK)
		if din {
			s.want(entryName(d, p), opCreate)
			s.Known[d][filepath.Base(p)] = true
		}
	}
	s.fsnote("mkdir", p, err)
}

func (s *KState) Mkfifo(p string) {
	vsched.Step("mkfifo " + p)
	d, din := s.dirOf(p)
	par := s.parentIno(p)
	err := syscall.Mkfifo(p, 0o644)
	if err == nil {
		s.K.Post(par, ksim.NOTE_WRITE)
		if din {
			s.want(entryName(d, p), opCreate)
			s.Known[d][filepath.Base(p)] = true
		}
	}
	s.fsnote("mkfifo", p, err)
}

func (s *KState) Symlink(target, link string) {
	vsched.Step("ln -s " + target + " " + link)
	par := s.parentIno(link)
	_, din := s.dirOf(link)
	err := syscall.Symlink(target, link)
	if err == nil {
		s.K.Post(par, ksim.NOTE_WRITE)
		if din {
			s.judge = false // symbolic links as directory entries: recorded as known-broken on kqueue, outside C18
		}
	}
	s.fsnote("symlink", target+" "+link, err)
}

func (s *KState) Ln(a, b string) {
	vsched.Step("ln " + a + " " + b)
	st, ok := stat(a)
	par := s.parentIno(b)
	err := syscall.Link(a, b)
	if err == nil && ok {
		s.K.Post(par, ksim.NOTE_WRITE)
		s.K.Post(st.Ino, ksim.NOTE_LINK)
		s.judge = false
	}
	s.fsnote("ln", a+" "+b, err)
}

func (s *KState) Mv(a, b string) {
	vsched.Step("mv " + a + " " + b)
	ast, aok := lstat(a)
	bst, bok := lstat(b)
	da, dain := s.dirOf(a)
	db, dbin := s.dirOf(b)
	pa, pb := s.parentIno(a), s.parentIno(b)
	selfA, isSelfA := s.userSelf(a)
	err := syscall.Rename(a, b)
	if err == nil && aok {
		s.K.Post(pa, ksim.NOTE_WRITE)
		s.K.Post(pb, ksim.NOTE_WRITE)
		if isDir(ast) && pa != pb {
			s.K.Post(pa, ksim.NOTE_LINK)
			s.K.Post(pb, ksim.NOTE_LINK)
		}
		s.K.Post(ast.Ino, ksim.NOTE_RENAME)
		s.ended[ast.Ino] = true
		if bok {
			s.K.Post(bst.Ino, ksim.NOTE_DELETE)
			s.ended[bst.Ino] = true
		}
		regular := func(st syscall.Stat_t) bool {
			return (st.Mode&syscall.S_IFMT == syscall.S_IFREG || isDir(st)) && st.Mode&0o444 != 0
		}
		if !regular(ast) || bok && !regular(bst) {
			s.judge = false
		}
		if bok && dbin && s.Known[db][filepath.Base(b)] {
			s.want(entryName(db, b), opRemove)
		}
		if dain && s.Known[da][filepath.Base(a)] {
			s.want(entryName(da, a), opRename)
			delete(s.Known[da], filepath.Base(a))
		}
		if dbin {
			s.want(entryName(db, b), opCreate)
			s.Known[db][filepath.Base(b)] = true
		}
		if isSelfA {
			// a user-watched path renamed away: its watch ends with a Rename
			s.want(selfA, opRename)
			delete(s.User, selfA)
			delete(s.Known, selfA)
		}
	}
	s.fsnote("mv", a+" "+b, err)
}

// ---------- checkpoint: invariants of C17 and the event comparison of C18 ----------

func (s *KState) events() []Got {
	var got []Got
	for ; s.logSeen < len(s.X.Log); s.logSeen++ {
		o := s.X.Log[s.logSeen]
		switch o.Kind {
		case "event":
			got = append(got, Got{o.Name, o.Op})
		case "error":
			s.problem("errors-chan", "value on Errors: "+firstWords(o.Err), o.Err)
		}
	}
	return got
}

func firstWords(s string) string {
	if i := strings.IndexAny(s, "\"/0123456789"); i > 0 {
		return strings.TrimSpace(s[:i])
	}
	return s
}

func fmtEvents(l []Got) string {
	var p []string
	for _, g := range l {
		p = append(p, fmt.Sprintf("%s %q", opText(g.Op), g.Name))
	}
	sort.Strings(p)
	return strings.Join(p, ", ")
}

func opText(o uint32) string {
	var p []string
	for i, n := range []string{"CREATE", "WRITE", "REMOVE", "RENAME", "CHMOD"} {
		if o&(1<<i) != 0 {
			p = append(p, n)
		}
	}
	return strings.Join(p, "|")
}

// Checkpoint is called at quiescence after every step.
func (s *KState) Checkpoint(step string) {
	got := s.events()
	// ---- C18: what a watched directory reports ----
	if s.judge {
		if fmtEvents(got) != fmtEvents(s.expect) {
			cat := "kq-events"
			s.problem(cat, "kqueue directory semantics: events differ from the reference for step "+strings.Fields(step)[0],
				fmt.Sprintf("step %q\nexpected {%s}\n     got {%s}", step, fmtEvents(s.expect), fmtEvents(got)))
		}
	}
	for _, g := range got {
		if g.Op == 0 {
			s.problem("kq-events", "event with empty operation set", g.Name)
		}
	}
	s.expect = nil
	s.judge = true
	// ---- C17: descriptors and tables ----
	vn, other := s.K.OpenFiles()
	t := kq.VerifKqTables(s.W)
	if s.Closed {
		if len(vn) > 0 || len(other) > 0 {
			var l []string
			for fd := range vn {
				l = append(l, fmt.Sprintf("%d:%s", fd, s.K.PathOf(fd)))
			}
			sort.Strings(l)
			s.problem("kq-fds", fmt.Sprintf("after Close %d watch descriptors and %d other descriptors are still open", len(vn), len(other)),
				fmt.Sprintf("vnode fds %v other %v", l, other))
		}
		return
	}
	lst := s.List()
	listed := map[string]bool{}
	for _, p := range lst {
		listed[p] = true
	}
	var bad []string
	for fd := range vn {
		if _, ok := t.Wd[fd]; !ok {
			bad = append(bad, fmt.Sprintf("descriptor %d (%s) is open but in no table (leak)", fd, s.K.PathOf(fd)))
		}
	}
	for fd, w := range t.Wd {
		ino, ok := vn[fd]
		if !ok {
			bad = append(bad, fmt.Sprintf("table entry %q holds descriptor %d, which is not open", w.Name, fd))
			continue
		}
		// the watch must still be warranted: its path names that vnode, and it is a user path or an entry of a user directory
		st, exists := stat(w.Name)
		if !exists || st.Ino != ino {
			// the path no longer names that file; if the file itself was deleted or renamed the watch has
			// ended (a renamed ancestor directory gives kqueue nothing to go by: not judged)
			if s.ended[ino] {
				bad = append(bad, fmt.Sprintf("descriptor %d still open for %q although that file was deleted or renamed (watch ended)", fd, w.Name))
			}
			continue
		}
		// this watch is in order under its present name: an earlier rename of the file is history now
		// (if only an ancestor directory is renamed later, kqueue has nothing to go by and nothing is demanded)
		delete(s.ended, ino)
		user := false
		for u := range s.User {
			ust, ok := stat(u)
			if !ok {
				continue
			}
			if ust.Ino == st.Ino {
				user = true
			}
			if dst, ok := stat(filepath.Dir(w.Name)); ok && dst.Ino == ust.Ino && isDir(ust) {
				user = true
			}
		}
		if !user && !(s.stale[w.Name] && listed[w.Name]) {
			bad = append(bad, fmt.Sprintf("descriptor %d for %q is kept although neither it nor its directory is watched by the user any more", fd, w.Name))
		}
	}
	if len(bad) > 0 {
		sort.Strings(bad)
		s.problem("kq-fds", "watch descriptors out of step with the watches: "+firstWords(bad[0]), strings.Join(bad, "; "))
	}
	// WatchList: exactly the user's paths
	var l []string
	staleListed := false
	for _, p := range lst {
		if !s.stale[p] || s.User[p] {
			l = append(l, p)
		} else {
			staleListed = true
		}
	}
	var wantL []string
	for u := range s.User {
		wantL = append(wantL, u)
	}
	sort.Strings(wantL)
	if strings.Join(l, "\x00") != strings.Join(wantL, "\x00") {
		s.problem("kq-list", "WatchList differs from the paths the user added", fmt.Sprintf("WatchList()=%q want %q", l, wantL))
	}
	if len(s.User) == 0 && !staleListed {
		if len(vn) > 0 || len(t.Wd)+len(t.Path)+len(t.ByDir)+len(t.Seen)+len(t.ByUser) > 0 {
			s.problem("kq-fds", "everything was removed but descriptors or table entries remain",
				fmt.Sprintf("open vnode fds %d; tables wd=%d path=%d byDir=%d seen=%d byUser=%d", len(vn), len(t.Wd), len(t.Path), len(t.ByDir), len(t.Seen), len(t.ByUser)))
		}
	}
}

// DoOp interprets one operation of the kq alphabet.
func (s *KState) DoOp(op string) {
	f := strings.Fields(op)
	arg := func(i int) string {
		if i >= len(f) {
			return ""
		}
		return strings.ReplaceAll(f[i], "$W", s.X.Root)
	}
	switch f[0] {
	case "A":
		s.Add(arg(1))
	case "R":
		s.Remove(arg(1))
	case "RU": // Remove, but only of a path the user has added (C18's histories do not remove what was never added)
		if s.User[filepath.Clean(arg(1))] {
			s.Remove(arg(1))
		}
	case "L":
		s.List()
	case "C":
		s.Close()
	case "touch":
		s.Touch(arg(1))
	case "write":
		s.Write(arg(1))
	case "chmod":
		mode := uint32(0o600)
		if st, ok := stat(arg(1)); ok && st.Mode&0o777 == 0o600 {
			mode = 0o644
		}
		if len(f) > 2 {
			fmt.Sscanf(f[1], "%o", &mode)
			s.Chmod(strings.ReplaceAll(f[2], "$W", s.X.Root), mode)
			return
		}
		s.Chmod(arg(1), mode)
	case "rm":
		s.Rm(arg(1))
	case "rmdir":
		s.Rmdir(arg(1))
	case "rmr":
		s.RmAll(arg(1))
	case "mkdir":
		s.Mkdir(arg(1))
	case "mkfifo":
		s.Mkfifo(arg(1))
	case "sym":
		s.Symlink(arg(1), arg(2))
	case "ln":
		s.Ln(arg(1), arg(2))
	case "mv":
		s.Mv(arg(1), arg(2))
	case "nop":
	default:
		panic("kq: unknown op " + op)
	}
}

// labelTree gives every inode below w that has no label yet a name that does
// not depend on inode numbers: its path, and for inodes created during the
// execution also how many were labelled before it. Creations only happen in
// one thread at a time (fixture, then the filesystem thread), so the labels
// are a function of that thread's progress.
func (s *KState) labelTree() {
	var walk func(p string)
	walk = func(p string) {
		var st syscall.Stat_t
		if syscall.Lstat(p, &st) != nil {
			return
		}
		if _, ok := s.K.Labels[st.Ino]; !ok {
			s.K.Label(st.Ino, fmt.Sprintf("%d:%s", len(s.K.Labels), p))
		}
		if st.Mode&syscall.S_IFMT == syscall.S_IFDIR {
			ents, _ := os.ReadDir(p)
			for _, e := range ents {
				walk(filepath.Join(p, e.Name()))
			}
		}
	}
	walk("w")
}

// keyExtra: the simulated kernel and the back end's five tables.
func (s *KState) keyExtra() string {
	kp := s.K.KeyPart()
	if kp == "" {
		return ""
	}
	return kp + "#" + s.tablesKey()
}

// tablesKey: the back end's five tables (shared memory of the library's threads).
func (s *KState) tablesKey() string {
	t := kq.VerifKqTables(s.W)
	var ents []string
	for fd, w := range t.Wd {
		ents = append(ents, fmt.Sprintf("wd%d={%d %q %q %t %#x}", fd, w.Wd, w.Name, w.LinkName, w.IsDir, w.DirFlags))
	}
	for p, fd := range t.Path {
		ents = append(ents, fmt.Sprintf("path%q=%d", p, fd))
	}
	for d, l := range t.ByDir {
		sort.Ints(l)
		ents = append(ents, fmt.Sprintf("bydir%q=%v", d, l))
	}
	for _, p := range t.Seen {
		ents = append(ents, "seen"+p)
	}
	for _, p := range t.ByUser {
		ents = append(ents, "user"+p)
	}
	sort.Strings(ents)
	return strings.Join(ents, " ") + fmt.Sprintf("#kq%d pipe%v", t.Kq, t.Pipe)
}
