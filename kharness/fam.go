package kharness

import (
	"crypto/sha256"
	"encoding/hex"
	"fmt"
	"os"
	"path/filepath"
	"sort"
	"strconv"
	"strings"
	"syscall"

	ksim "verif/engine/kqsim/unix"
	kq "verif/gen/kq"
	"verif/harness"
)

func init() {
	harness.Families["kq"] = kqScenario
	harness.Families["kqscript"] = scriptScenario
}

func pstr(p map[string]any, k, def string) string {
	if v, ok := p[k]; ok {
		return fmt.Sprint(v)
	}
	return def
}

func pstrs(p map[string]any, k string) []string {
	switch t := p[k].(type) {
	case []string:
		return t
	case []any:
		out := make([]string, len(t))
		for i, e := range t {
			out[i] = fmt.Sprint(e)
		}
		return out
	}
	return nil
}

func must(err error) {
	if err != nil {
		panic("kq fixture: " + err.Error())
	}
}

var catProp = map[string][]string{
	"kq-fds": {"C17"}, "kq-list": {"C17"}, "kq-events": {"C18"}, "errors-chan": {"C18"}, "errclass": {"C17"}, "postclose": {"C17"},
}

func mkFixture(name string) {
	mk := func(p string) { must(os.MkdirAll(p, 0o755)) }
	file := func(p string) { must(os.WriteFile(p, []byte("x"), 0o644)) }
	switch name {
	case "kstd":
		mk("w/d/sub")
		mk("w/d2")
		mk("w/o")
		file("w/d/a")
		file("w/d/b")
		file("w/d/sub/x")
		file("w/f")
		file("w/o/p")
		must(os.Symlink("d", "w/ld"))            // a symlinked watch path (C18 names it); no symlink *entries* in watched directories
		must(syscall.Mkfifo("w/d/pipe0", 0o644)) // a pre-existing entry the back end cannot watch: must never be announced
	case "kmixed": // C17: arbitrary contents incl. a symlink and a FIFO
		mkFixture("kstd")
		must(os.Symlink("a", "w/d/lnk"))
		must(syscall.Mkfifo("w/d/fifo", 0o644))
		must(os.WriteFile("w/d/unreadable", []byte("x"), 0o000))
	case "empty":
	default:
		panic("unknown kq fixture " + name)
	}
}

func emit(out *[]harness.Violation, pr harness.Problem) {
	for _, prop := range catProp[pr.Cat] {
		*out = append(*out, harness.Violation{Property: prop, Signature: pr.Cat + ": " + pr.Sig, Detail: pr.Detail})
	}
}

// kqScenario: sequential histories (family "seq" of the inotify harness, for the kqueue transplant).
func kqScenario(p map[string]any) *harness.Scenario {
	fix := pstr(p, "fix", "kstd")
	initOps, ops := pstrs(p, "init"), pstrs(p, "ops")
	sc := &harness.Scenario{Name: fmt.Sprintf("kq/%s/%s", fix, strings.Join(append(append([]string{}, initOps...), ops...), ";")), Params: p}
	if len(sc.Name) > 150 {
		sc.Name = sc.Name[:150]
	}
	nojudge := pstr(p, "judge18", "true") != "true"
	sc.Body = func(x *harness.X) {
		mkFixture(fix)
		s, err := NewKState(x)
		must(err)
		x.Vars["kq"] = s
		x.Quiesce()
		for _, op := range append(append([]string{}, initOps...), ops...) {
			s.judge = !nojudge
			for _, part := range strings.Split(op, ";;") {
				s.DoOp(strings.TrimSpace(part))
			}
			x.Quiesce()
			if strings.Contains(op, ";;") {
				s.judge = false // bursts: kqueue merges notes per vnode, the per-step reference does not apply
			}
			s.Checkpoint(op)
		}
		x.Vars["canon"] = s.canon()
	}
	sc.Check = func(x *harness.X, e *harness.End) []harness.Violation {
		var out []harness.Violation
		if s, ok := x.Vars["kq"].(*KState); ok {
			for _, pr := range s.Problems {
				emit(&out, pr)
			}
			s.K.Cleanup()
		}
		if e.Failure != "" {
			out = append(out, harness.Violation{Property: "C17", Signature: "panic: " + strings.SplitN(e.Failure, "\n", 2)[0], Detail: e.Failure})
		} else if len(e.Pending) > 0 {
			out = append(out, harness.Violation{Property: "C17", Signature: "call never returned: " + strings.Join(e.Pending, ","), Detail: fmt.Sprint(e.Blocked)})
		}
		return out
	}
	sc.Outcome = func(x *harness.X, e *harness.End) string {
		c, _ := x.Vars["canon"].(string)
		h := sha256.Sum256([]byte(c))
		return hex.EncodeToString(h[:12])
	}
	return sc
}

// canon: filesystem picture plus the back end's tables with descriptors renamed to inode ranks.
func (s *KState) canon() string {
	rank := map[uint64]int{}
	var b strings.Builder
	var walk func(dir, rel string)
	walk = func(dir, rel string) {
		ents, _ := os.ReadDir(dir)
		for _, e := range ents {
			p := filepath.Join(dir, e.Name())
			st, ok := lstat(p)
			if !ok {
				continue
			}
			r, seen := rank[st.Ino]
			if !seen {
				r = len(rank)
				rank[st.Ino] = r
			}
			kind := "f"
			switch st.Mode & syscall.S_IFMT {
			case syscall.S_IFDIR:
				kind = "d"
			case syscall.S_IFLNK:
				t, _ := os.Readlink(p)
				kind = "l>" + t
			case syscall.S_IFIFO:
				kind = "p"
			}
			fmt.Fprintf(&b, "%s%s=%s#%d:%o ", rel, e.Name(), kind, r, st.Mode&0o444)
			if kind == "d" {
				walk(p, rel+e.Name()+"/")
			}
		}
	}
	walk(s.X.Root, "")
	if s.Closed {
		return b.String() + "| closed"
	}
	vn, _ := s.K.OpenFiles()
	t := kq.VerifKqTables(s.W)
	name := func(fd int) string {
		if ino, ok := vn[fd]; ok {
			if r, ok := rank[ino]; ok {
				return fmt.Sprintf("i%d", r)
			}
			return "gone"
		}
		return fmt.Sprintf("x%d", fd)
	}
	var ents []string
	for fd, w := range t.Wd {
		ents = append(ents, fmt.Sprintf("%s={%q %q %t %#x}", name(fd), w.Name, w.LinkName, w.IsDir, w.DirFlags))
	}
	for p, fd := range t.Path {
		ents = append(ents, fmt.Sprintf("%q->%s", p, name(fd)))
	}
	for d, fds := range t.ByDir {
		var l []string
		for _, fd := range fds {
			l = append(l, name(fd))
		}
		sort.Strings(l)
		ents = append(ents, fmt.Sprintf("dir:%q=%v", d, l))
	}
	for _, p := range t.Seen {
		ents = append(ents, "seen:"+p)
	}
	for _, p := range t.ByUser {
		ents = append(ents, "user:"+p)
	}
	sort.Strings(ents)
	return b.String() + "| " + strings.Join(ents, " ")
}

// ---------- replay of the repository's testdata scripts (binding the simulation to recorded BSD behaviour) ----------

type scriptCmd struct {
	cmd  string
	args []string
}

func parseScript(in string) (cmds []scriptCmd, want string) {
	readW := false
	for _, line := range strings.Split(in, "\n") {
		raw := line
		line = strings.TrimSpace(line)
		if line == "" || line[0] == '#' {
			continue
		}
		if i := strings.IndexByte(line, '#'); i > -1 {
			line = strings.TrimSpace(line[:i])
		}
		if line == "Output:" {
			readW = true
			continue
		}
		if readW {
			want += raw + "\n"
			continue
		}
		var c scriptCmd
		q := false
		var cur []rune
		app := func() {
			if len(cur) == 0 {
				return
			}
			if c.cmd == "" {
				c.cmd = string(cur)
			} else {
				c.args = append(c.args, string(cur))
			}
			cur = cur[:0]
		}
		for _, ch := range line {
			switch ch {
			case ' ', '\t':
				if q {
					cur = append(cur, ch)
				} else {
					app()
				}
			case '"', '\'':
				q = !q
			default:
				cur = append(cur, ch)
			}
		}
		app()
		cmds = append(cmds, c)
	}
	return
}

// wantEvents picks the expectation a FreeBSD run uses: freebsd, else kqueue, else the default group.
func wantEvents(s string) ([]Got, error) {
	groups := []string{""}
	events := map[string][]Got{}
	for _, line := range strings.Split(s, "\n") {
		if i := strings.IndexByte(line, '#'); i > -1 {
			line = line[:i]
		}
		line = strings.TrimSpace(line)
		if line == "" {
			continue
		}
		if strings.HasSuffix(line, ":") {
			groups = strings.Split(strings.TrimRight(line, ":"), ",")
			for i := range groups {
				groups[i] = strings.TrimSpace(groups[i])
			}
			continue
		}
		f := strings.Fields(line)
		if len(f) != 2 && len(f) != 4 {
			if strings.ToLower(f[0]) == "empty" || strings.ToLower(f[0]) == "no-events" {
				for _, g := range groups {
					events[g] = []Got{}
				}
				continue
			}
			return nil, fmt.Errorf("bad expectation line %q", line)
		}
		var op uint32
		for _, ee := range strings.Split(f[0], "|") {
			switch strings.ToUpper(ee) {
			case "CREATE":
				op |= opCreate
			case "WRITE":
				op |= opWrite
			case "REMOVE":
				op |= opRemove
			case "RENAME":
				op |= opRename
			case "CHMOD":
				op |= opChmod
			default:
				op |= 1 << 20 // an unportable op: never matches on kqueue
			}
		}
		for _, g := range groups {
			events[g] = append(events[g], Got{strings.Trim(f[1], `"`), op})
		}
	}
	if e, ok := events["freebsd"]; ok {
		return e, nil
	}
	if e, ok := events["kqueue"]; ok {
		return e, nil
	}
	return events[""], nil
}

// scriptScenario replays one testdata script. params: script (path relative to testdata), text
func scriptScenario(p map[string]any) *harness.Scenario {
	name, text := pstr(p, "script", ""), pstr(p, "text", "")
	sc := &harness.Scenario{Name: "kqscript/" + name, Params: map[string]any{"script": name, "text": text}}
	sc.Body = func(x *harness.X) {
		cmds, want := parseScript(text)
		x.Vars["status"] = "run"
		for _, c := range cmds {
			if c.cmd == "skip" || c.cmd == "require" {
				switch c.args[0] {
				case "op_all", "op_open", "op_read", "op_close_write", "op_close_read", "always", "mknod", "recurse", "filter", "nofollow":
					x.Vars["status"] = "skipped: " + c.cmd + " " + c.args[0]
					return
				}
			}
		}
		s, err := NewKState(x)
		must(err)
		x.Vars["kq"] = s
		x.Quiesce()
		tmp := func(a string) string {
			if a == "" {
				return ""
			}
			return filepath.Join(x.Root, a)
		}
		for _, c := range cmds {
			s.judge = false
			switch c.cmd {
			case "skip", "require", "sleep", "debug", "state", "print":
			case "stop":
				goto done
			case "watch":
				if err := s.Add(tmp(c.args[0])); err != nil {
					x.Vars["status"] = fmt.Sprintf("error: watch %s: %v", c.args[0], err)
					return
				}
			case "unwatch":
				s.Remove(tmp(c.args[0]))
			case "watchlist":
				n, _ := strconv.Atoi(c.args[0])
				if l := s.List(); len(l) != n {
					x.Vars["status"] = fmt.Sprintf("mismatch: watchlist has %d entries, not %d: %q", len(l), n, l)
					return
				}
			case "touch":
				s.Touch(tmp(c.args[0]))
			case "mkdir":
				a := c.args
				if len(a) == 2 && a[0] == "-p" {
					// one level at a time, as mkdir -p does
					rel := strings.Split(strings.Trim(a[1], "/"), "/")
					cur := x.Root
					for _, e := range rel {
						cur = filepath.Join(cur, e)
						if _, ok := lstat(cur); !ok {
							s.Mkdir(cur)
						}
					}
				} else {
					s.Mkdir(tmp(a[0]))
				}
			case "ln":
				s.Symlink(tmp(c.args[1]), tmp(c.args[2]))
			case "mkfifo":
				s.Mkfifo(tmp(c.args[0]))
			case "mv":
				s.Mv(tmp(c.args[0]), tmp(c.args[1]))
			case "rm":
				if len(c.args) == 2 && c.args[0] == "-r" {
					s.RmAll(tmp(c.args[1]))
				} else {
					s.Rm(tmp(c.args[0]))
				}
			case "chmod":
				var mode uint32
				fmt.Sscanf(c.args[0], "%o", &mode)
				s.Chmod(tmp(c.args[1]), mode)
			case "cat":
			case "echo":
				var op, dst string
				if len(c.args) == 2 {
					op, dst = c.args[1][:1], c.args[1][1:]
					if strings.HasPrefix(dst, ">") {
						op, dst = op+dst[:1], dst[1:]
					}
				} else {
					op, dst = c.args[1], c.args[2]
				}
				if op == ">" {
					s.Touch(tmp(dst)) // os.Create: create or truncate
					x.Quiesce()
				} else if _, ok := lstat(tmp(dst)); !ok {
					s.Touch(tmp(dst)) // O_CREATE|O_APPEND on a new file
					x.Quiesce()
				}
				s.Write(tmp(dst))
			default:
				x.Vars["status"] = "error: unknown script command " + c.cmd
				return
			}
			x.Quiesce()
		}
	done:
		x.Quiesce()
		got := s.events()
		wantEv, err := wantEvents(want)
		if err != nil {
			x.Vars["status"] = "error: " + err.Error()
			return
		}
		for i := range got {
			got[i].Name = strings.TrimPrefix(got[i].Name, x.Root)
		}
		if fmtEvents(got) == fmtEvents(wantEv) {
			x.Vars["status"] = "agree"
		} else {
			x.Vars["status"] = fmt.Sprintf("mismatch:\n  recorded expectation {%s}\n  simulation delivered {%s}", fmtEvents(wantEv), fmtEvents(got))
		}
	}
	sc.Check = func(x *harness.X, e *harness.End) []harness.Violation {
		if s, ok := x.Vars["kq"].(*KState); ok {
			s.K.Cleanup()
		}
		if e.Failure != "" {
			x.Vars["status"] = "error: panic " + strings.SplitN(e.Failure, "\n", 2)[0]
		}
		return nil
	}
	sc.Outcome = func(x *harness.X, e *harness.End) string {
		st, _ := x.Vars["status"].(string)
		return st
	}
	return sc
}

var _ = ksim.NOTE_WRITE

// ---------- family "kqconc": Close / Remove / Add racing each other and the reader (C17, schedules) ----------

func init() { harness.Families["kqconc"] = kqConcScenario }

func kqConcScenario(p map[string]any) *harness.Scenario {
	initOps := pstrs(p, "init")
	split := func(s string) []string {
		var out []string
		for _, q := range strings.Split(s, ";") {
			if q = strings.TrimSpace(q); q != "" {
				out = append(out, q)
			}
		}
		return out
	}
	t1, t2, fsops := split(pstr(p, "t1", "")), split(pstr(p, "t2", "")), split(pstr(p, "fs", ""))
	sc := &harness.Scenario{Name: fmt.Sprintf("kqconc/%s|%s|%s|%s", strings.Join(initOps, ";"), strings.Join(t1, ";"), strings.Join(t2, ";"), strings.Join(fsops, ";")), Params: p}
	sc.Body = func(x *harness.X) {
		mkFixture("kstd")
		s, err := NewKState(x)
		must(err)
		x.Vars["kq"] = s
		for _, op := range initOps {
			s.DoOp(op)
		}
		run := func(name string, ops []string) {
			if len(ops) == 0 {
				return
			}
			harness.GoNamed(name, func() {
				for _, op := range ops {
					s.DoOp(op)
				}
			})
		}
		run("t1", t1)
		run("t2", t2)
		run("fs", fsops)
	}
	sc.Check = func(x *harness.X, e *harness.End) []harness.Violation {
		var out []harness.Violation
		s, _ := x.Vars["kq"].(*KState)
		if e.Failure != "" {
			out = append(out, harness.Violation{Property: "C17", Signature: "panic: " + strings.SplitN(e.Failure, "\n", 2)[0], Detail: e.Failure})
		} else if len(e.Pending) > 0 {
			out = append(out, harness.Violation{Property: "C17", Signature: "call never returned", Detail: fmt.Sprint(e.Pending, e.Blocked)})
		} else if s != nil {
			vn, other := s.K.OpenFiles()
			closeCalled := false
			for _, o := range x.Log {
				if o.Kind == "ret" && o.What == "Close" {
					closeCalled = true
				}
			}
			if closeCalled {
				if len(vn) > 0 || len(other) > 0 {
					var l []string
					for fd := range vn {
						l = append(l, fmt.Sprintf("%d:%s", fd, s.K.PathOf(fd)))
					}
					sort.Strings(l)
					out = append(out, harness.Violation{Property: "C17",
						Signature: fmt.Sprintf("after Close (racing %s): %d watch descriptors, %d other descriptors still open", raceWith(t1, t2, fsops), len(vn), len(other)),
						Detail:    fmt.Sprintf("vnode fds %v other %v", l, other)})
				}
			} else {
				t := kq.VerifKqTables(s.W)
				for fd := range vn {
					if _, ok := t.Wd[fd]; !ok {
						out = append(out, harness.Violation{Property: "C17", Signature: "descriptor open but in no table (leak) after concurrent calls", Detail: fmt.Sprintf("fd %d %s", fd, s.K.PathOf(fd))})
						break
					}
				}
			}
		}
		if s != nil {
			s.K.Cleanup()
		}
		return out
	}
	sc.Outcome = func(x *harness.X, e *harness.End) string {
		var b strings.Builder
		for _, o := range x.Log {
			if o.Kind == "ret" {
				fmt.Fprintf(&b, "%s(%s)=%s;", o.What, o.Arg, o.Err)
			}
		}
		if s, ok := x.Vars["kq"].(*KState); ok {
			vn, other := s.K.OpenFiles()
			fmt.Fprintf(&b, "open=%d/%d", len(vn), len(other))
		}
		return b.String()
	}
	return sc
}

func raceWith(t1, t2, fs []string) string {
	var l []string
	for _, t := range [][]string{t1, t2, fs} {
		for _, op := range t {
			if op != "C" {
				l = append(l, strings.Fields(op)[0])
			}
		}
	}
	l = append(l, "reader")
	return strings.Join(l, ",")
}
