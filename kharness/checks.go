package kharness

import (
	"encoding/json"
	"fmt"
	"os"
	"path/filepath"
	"sort"
	"strings"

	"verif/harness"
)

func repoDir() string {
	if d := os.Getenv("VERIF_REPO"); d != "" {
		return d
	}
	return "/repo"
}

type scriptRes struct {
	Name   string `json:"name"`
	Status string `json:"status"`
}

func init() {
	harness.JobRunners["kq-scripts"] = func(j harness.Job) harness.JobResult {
		res := harness.JobResult{Job: j}
		res.Stats.Exhaustive = true
		var out []scriptRes
		list, _ := j.Params["scripts"].([]any)
		for _, e := range list {
			m := e.(map[string]any)
			sc := scriptScenario(map[string]any{"script": m["name"], "text": m["text"]})
			r := harness.RunOnce(sc, nil, false, nil)
			st := r.Outcome
			if r.EngineErr != "" {
				st = "error: engine: " + r.EngineErr
			}
			// the same script twice must give the same verdict (determinism of the simulated kernel)
			if r2 := harness.RunOnce(sc, nil, false, nil); r2.Outcome != r.Outcome {
				st = "error: nondeterministic replay"
			}
			res.Stats.Executions++
			res.Stats.Steps += r.Steps
			out = append(out, scriptRes{fmt.Sprint(m["name"]), st})
		}
		res.Extra, _ = json.Marshal(out)
		return res
	}
}

// validateScripts replays every testdata script of the working tree against the
// transplanted back end on the simulated kernel and compares with the
// expectation recorded for FreeBSD (freebsd:, else kqueue:, else the default).
func validateScripts() (cov map[string]any, errs []string) {
	root := filepath.Join(repoDir(), "testdata")
	var scripts []any
	filepath.Walk(root, func(p string, fi os.FileInfo, err error) error {
		if err == nil && !fi.IsDir() {
			b, _ := os.ReadFile(p)
			rel, _ := filepath.Rel(root, p)
			scripts = append(scripts, map[string]any{"name": rel, "text": string(b)})
		}
		return nil
	})
	var jobs []harness.Job
	for i := 0; i < len(scripts); i += 4 {
		end := i + 4
		if end > len(scripts) {
			end = len(scripts)
		}
		jobs = append(jobs, harness.Job{ID: len(jobs), Family: "kq-scripts", Params: map[string]any{"scripts": scripts[i:end]}})
	}
	results, jerr := harness.RunJobs(jobs, 16)
	if jerr != "" {
		return nil, []string{jerr}
	}
	agree, skipped := 0, 0
	mismatch, broken := []string{}, []string{}
	for _, r := range results {
		if r.EngineErr != "" {
			errs = append(errs, r.EngineErr)
			continue
		}
		var l []scriptRes
		json.Unmarshal(r.Extra, &l)
		for _, s := range l {
			switch {
			case s.Status == "agree":
				agree++
			case strings.HasPrefix(s.Status, "skipped"):
				skipped++
			case strings.HasPrefix(s.Status, "mismatch"):
				mismatch = append(mismatch, s.Name+": "+s.Status)
			default:
				broken = append(broken, s.Name+": "+s.Status)
			}
		}
	}
	sort.Strings(mismatch)
	sort.Strings(broken)
	cov = map[string]any{"scripts_replayed_agreeing_with_recorded_bsd_expectation": agree, "scripts_skipped_as_on_freebsd": skipped,
		"scripts_disagreeing": mismatch, "scripts_not_replayable": broken}
	return cov, errs
}

func bfsC17(tier string) *harness.BFSDef {
	al := []string{"A w/d", "A w/f", "A w/d/a", "A w/d/sub", "R w/d", "R w/f", "R w/d/a", "R w/d/sub", "C",
		"touch w/d/n", "rm w/d/a", "rm w/d/n", "mv w/d/a w/d/c", "mv w/d/c w/d/a", "mkdir w/d/m", "rmdir w/d/m",
		"sym a w/d/l2", "mkfifo w/d/ff", "rm w/d/fifo", "rm w/d/lnk", "rmr w/d", "mv w/d w/e", "rm w/f", "mv w/f w/g", "touch w/f", "rmr w/d/sub",
		"chmod w/d", "chmod w/d/a"}
	// second phase: every burst of two (no quiescence in between, so kqueue merges the notes of one vnode into one
	// kevent - the descriptor/table oracle is an end-state oracle and applies to bursts as well)
	d, td := 4, 1
	if tier == "thorough" {
		d, td = 7, 2
	}
	return &harness.BFSDef{Name: "kq-descriptors", Family: "kq", Base: map[string]any{"fix": "kmixed", "init": []string{}, "judge18": "false"}, Alphabet: al, Depth: d, TailBurst: 2, TailDepth: td}
}

func bfsC18(tier string) *harness.BFSDef {
	al := []string{"touch w/d/n", "touch w/d/a", "write w/d/a", "write w/d/n", "chmod w/d/a", "rm w/d/a", "rm w/d/n",
		"mv w/d/a w/d/c", "mv w/d/c w/d/a", "mv w/d/a w/d/b", "mv w/o/p w/d/p", "mv w/d/b w/o/b", "mv w/d/a w/d2/a", "mv w/d2/a w/d/a",
		"mkdir w/d/m", "rmdir w/d/m", "touch w/d/sub/y", "rmr w/d", "A w/d2", "R w/d2", "touch w/d2/z", "rm w/d2/z"}
	d := 5
	if tier == "thorough" {
		d = 9
	}
	return &harness.BFSDef{Name: "kq-directory-semantics", Family: "kq", Base: map[string]any{"fix": "kstd", "init": []string{"A w/d"}}, Alphabet: al, Depth: d}
}

// bfsC18entry: entries watched on their own before (and after) their directory is added
func bfsC18entry(tier string) *harness.BFSDef {
	al := []string{"A w/d/a", "A w/d/sub", "A w/d", "RU w/d", "touch w/d/n", "write w/d/a", "chmod w/d/a", "rm w/d/n", "rm w/d/a", "touch w/d/sub/y", "mkdir w/d/m"}
	d := 4
	if tier == "thorough" {
		d = 6
	}
	return &harness.BFSDef{Name: "kq-entry-before-directory", Family: "kq", Base: map[string]any{"fix": "kstd", "init": []string{}}, Alphabet: al, Depth: d}
}

func bfsC18link(tier string) *harness.BFSDef {
	// the same through a symlinked watch path: names must follow the user's spelling
	al := []string{"touch w/d/n", "write w/d/a", "chmod w/d/a", "rm w/d/a", "rm w/d/n", "mv w/d/a w/d/c", "mkdir w/d/m", "rmdir w/d/m"}
	d := 12 // reaches its fixed point earlier
	return &harness.BFSDef{Name: "kq-directory-via-symlink", Family: "kq", Base: map[string]any{"fix": "kstd", "init": []string{"A w/ld"}}, Alphabet: al, Depth: d}
}

func kqConcJobs(tier string) []harness.Job {
	var jobs []harness.Job
	bound := 2
	for _, init := range [][]string{{"A w/d"}, {"A w/d", "A w/f"}} {
		for _, t2 := range []string{"", "R w/d", "A w/d2", "R w/f", "C", "A w/o"} {
			for _, fs := range []string{"", "touch w/d/n", "rm w/d/a", "mv w/d/a w/d/c"} {
				b := bound
				if tier != "thorough" && t2 != "" && fs != "" {
					continue // quick: Close against one other party (a caller or a filesystem change) besides the reader
				}
				if tier != "thorough" {
					b = 1 // quick: the kqueue back end takes a lock around every table access, so bound 2 runs to ~10^5..10^6 schedules per program
				}
				if tier == "thorough" {
					// bound 2 with state-key pruning (the oracle is a function of the end state), then, as far as the
					// time allows, no bound at all
					b2 := 2
					if t2 != "" && fs != "" {
						b2 = 1 // three parties besides the reader: bound 1 (bound 2 runs to millions of schedules per program)
					}
					jobs = append(jobs, harness.Job{Family: "kqconc", Bound: b2, Prune: true, Params: map[string]any{"init": init, "t1": "C", "t2": t2, "fs": fs}})
					if t2 == "" || fs == "" {
						jobs = append(jobs, harness.Job{Family: "kqconc", Bound: -1, Prune: true, Deepening: true, MaxSeconds: 60, Params: map[string]any{"init": init, "t1": "C", "t2": t2, "fs": fs}})
					}
					continue
				}
				jobs = append(jobs, harness.Job{Family: "kqconc", Bound: b, Params: map[string]any{"init": init, "t1": "C", "t2": t2, "fs": fs}})
			}
		}
	}
	return jobs
}

const kqRule = "E3: the kqueue back end (backend_kqueue.go, shared.go, fsnotify.go, system_bsd.go copied from the working tree, instrumented, compiled on Linux against a simulated kqueue: descriptor table with lowest-free allocation, knotes with EV_ADD/DELETE/CLEAR/ONESHOT, OR-ed pending fflags, activation-ordered retrieval) driven by a filesystem driver that performs the real operation and raises the notes FreeBSD's vop_*_post hooks raise; BFS over operation sequences with quiescence after every step; a state is the canonical tree picture plus the five back-end tables with descriptors renamed to inode ranks. The simulation is bound to reality by replaying every testdata script of the working tree and comparing with the expectation recorded for FreeBSD"

func init() {
	post := func(tier string) (map[string]any, []string) { return validateScripts() }
	harness.Checks["C17"] = &harness.CheckDef{Prop: "C17", Jobs: kqConcJobs, BFS: func(tier string) []*harness.BFSDef { return []*harness.BFSDef{bfsC17(tier)} }, Post: post,
		Rule:      kqRule,
		Technique: "explicit-state model checking (BFS) of the transplanted kqueue back end on a simulated kernel validated against recorded BSD expectations; oracle = the simulator's descriptor table: every descriptor the back end opened is closed when its watch ends and after Close, WatchList shows exactly the user's paths, all five tables empty once everything was removed",
		Assume:    []string{"fidelity of the simulated kqueue is bounded by the testdata scripts' recorded expectations (count in coverage)", "unlink always raises NOTE_DELETE (classic FreeBSD); hard links are left out"}}
	harness.Checks["C18"] = &harness.CheckDef{Prop: "C18", BFS: func(tier string) []*harness.BFSDef {
		return []*harness.BFSDef{bfsC18(tier), bfsC18link(tier), bfsC18entry(tier)}
	}, Post: post,
		Rule:      kqRule,
		Technique: "explicit-state model checking (BFS) of the transplanted kqueue back end on a simulated kernel validated against recorded BSD expectations; oracle = a reference written from the property: Create once per new entry and never for pre-existing ones, then Write/Chmod/Remove/Rename under the user's spelling, remove-and-recreate = Remove then Create, removing the directory = Remove for it and each announced entry (compared as multisets per step, as the recorded expectations are)",
		Assume:    []string{"symbolic links, FIFOs and unreadable files as directory entries are left out of the judged alphabet (recorded as known-broken / unwatchable on kqueue)", "bursts are not judged: kqueue merges notes per vnode"}}
}
