// Package dr defines the result record exchanged between the pure-function
// enumerators (cmd/vpure) and the coordinator.
package dr

type Violation struct {
	Property  string         `json:"property"`
	Scenario  string         `json:"scenario"`
	Params    map[string]any `json:"params,omitempty"`
	Signature string         `json:"signature"`
	Detail    string         `json:"detail"`
}

type Result struct {
	States      int            `json:"states"`
	Transitions int            `json:"transitions"`
	Traces      int            `json:"traces"`
	Exhaustive  bool           `json:"exhaustive"`
	Samples     []any          `json:"samples"`
	Violations  []Violation    `json:"violations"`
	Extra       map[string]any `json:"extra"`
	EngineErr   string         `json:"engine_err,omitempty"`
}
