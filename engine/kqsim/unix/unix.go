// Package unix stands in for golang.org/x/sys/unix when the kqueue back end
// of fsnotify is compiled on Linux for model checking: exactly the surface
// backend_kqueue.go uses, on top of a simulated kqueue kernel.
//
// The simulated kernel keeps a descriptor table with lowest-free-number
// allocation (descriptor reuse is where kqueue bookkeeping bugs live), knotes
// with EV_ADD/EV_DELETE/EV_CLEAR/EV_ONESHOT, pending fflags OR-ed per knote
// until retrieved, and an active list ordered by first activation. Paths are
// resolved on the real (Linux) filesystem; a vnode is identified by its inode
// number, pinned by an O_PATH descriptor while the simulated descriptor is
// open. Notes are posted by the harness's filesystem driver (Post), which
// performs the real operation and raises what FreeBSD's vop_*_post hooks raise.
package unix

import (
	"fmt"
	"sort"
	"strings"
	"syscall"

	"verif/engine/vsched"

	real "golang.org/x/sys/unix"
)

// FreeBSD amd64 values (golang.org/x/sys v0.13.0, zerrors_freebsd_amd64.go).
const (
	EVFILT_READ  = -0x1
	EVFILT_VNODE = -0x4
	EV_ADD       = 0x1
	EV_DELETE    = 0x2
	EV_ENABLE    = 0x4
	EV_DISABLE   = 0x8
	EV_ONESHOT   = 0x10
	EV_CLEAR     = 0x20
	EV_ERROR     = 0x4000
	EV_EOF       = 0x8000

	NOTE_DELETE      = 0x1
	NOTE_WRITE       = 0x2
	NOTE_EXTEND      = 0x4
	NOTE_ATTRIB      = 0x8
	NOTE_LINK        = 0x10
	NOTE_RENAME      = 0x20
	NOTE_REVOKE      = 0x40
	NOTE_OPEN        = 0x80
	NOTE_CLOSE       = 0x100
	NOTE_CLOSE_WRITE = 0x200
	NOTE_READ        = 0x400

	O_RDONLY   = 0x0
	O_NONBLOCK = 0x4
	O_CLOEXEC  = 0x100000
	O_EVTONLY  = 0x8000 // darwin; unused here
)

const (
	EINTR  = syscall.EINTR
	EACCES = syscall.EACCES
	EPERM  = syscall.EPERM
	EBADF  = syscall.EBADF
	ENOENT = syscall.ENOENT
	EINVAL = syscall.EINVAL
	EMFILE = syscall.EMFILE
)

type Kevent_t struct {
	Ident  uint64
	Filter int16
	Flags  uint16
	Fflags uint32
	Data   int64
	Udata  *byte
}

type Timespec struct {
	Sec  int64
	Nsec int64
}

func SetKevent(k *Kevent_t, fd, mode, flags int) {
	k.Ident = uint64(fd)
	k.Filter = int16(mode)
	k.Flags = uint16(flags)
}

const (
	kVnode = iota
	kKqueue
	kPipeR
	kPipeW
)

type file struct {
	kind   int
	ino    uint64
	path   string
	pin    int // real O_PATH descriptor pinning the inode
	pipe   *pipe
	opener string
}

type pipe struct {
	r, w    int
	wclosed bool
}

type knote struct {
	fd      int
	filter  int16
	flags   uint16
	want    uint32
	pending uint32
	active  bool
	seq     int
}

type kq struct {
	notes  map[[2]int]*knote // (fd, filter)
	actSeq int
}

// OpenRec is one descriptor event, for the accounting oracle.
type OpenRec struct {
	Fd    int
	Kind  string
	Path  string
	Ino   uint64
	Close bool
}

type Kernel struct {
	fds map[int]*file
	kqs map[int]*kq
	Log []OpenRec
	// Faults: answer the n-th Open (0-based) with this error.
	OpenFail   map[int]error
	nOpen      int
	KqueueFail error
	// Labels names inodes independently of the numbers the filesystem hands out
	// (which differ from one execution to the next); used by KeyPart only.
	Labels map[uint64]string
}

func kern() *Kernel {
	s := vsched.Cur()
	if s == nil {
		panic("kqsim used outside a scheduled execution")
	}
	if k, ok := s.Locals["kqsim"]; ok {
		return k.(*Kernel)
	}
	k := &Kernel{fds: map[int]*file{}, kqs: map[int]*kq{}}
	s.Locals["kqsim"] = k
	return k
}

// Get returns the simulated kernel of the running execution.
func Get() *Kernel { return kern() }

func (k *Kernel) alloc(f *file) int {
	fd := 3
	for {
		if _, used := k.fds[fd]; !used {
			break
		}
		fd++
	}
	k.fds[fd] = f
	return fd
}

func kindName(i int) string { return [...]string{"vnode", "kqueue", "pipe-r", "pipe-w"}[i] }

func Kqueue() (int, error) {
	vsched.Step("kqueue()")
	k := kern()
	if k.KqueueFail != nil {
		return -1, k.KqueueFail
	}
	fd := k.alloc(&file{kind: kKqueue, pin: -1})
	k.kqs[fd] = &kq{notes: map[[2]int]*knote{}}
	k.Log = append(k.Log, OpenRec{Fd: fd, Kind: "kqueue"})
	vsched.Observe("kqueue", fd)
	return fd, nil
}

func Pipe(p []int) error {
	vsched.Step("pipe()")
	k := kern()
	pp := &pipe{}
	pp.r = k.alloc(&file{kind: kPipeR, pipe: pp, pin: -1})
	pp.w = k.alloc(&file{kind: kPipeW, pipe: pp, pin: -1})
	p[0], p[1] = pp.r, pp.w
	k.Log = append(k.Log, OpenRec{Fd: pp.r, Kind: "pipe-r"}, OpenRec{Fd: pp.w, Kind: "pipe-w"})
	vsched.Observe("pipe", pp.r, pp.w)
	return nil
}

func CloseOnExec(fd int) {}

// Open resolves the path on the real filesystem (following symbolic links, as
// open(2) without O_NOFOLLOW does) and returns a simulated descriptor for the
// vnode. The sandbox runs as root, so the permission check an unprivileged
// user would get is emulated: a file without any read bit gives EACCES.
func Open(path string, mode int, perm uint32) (fd int, err error) {
	vsched.Step("open " + path)
	defer func() { vsched.Observe("open", path, fd, fmt.Sprint(err)) }()
	k := kern()
	n := k.nOpen
	k.nOpen++
	if e, ok := k.OpenFail[n]; ok {
		return -1, e
	}
	var st syscall.Stat_t
	if err := syscall.Stat(path, &st); err != nil {
		return -1, err
	}
	if st.Mode&0o444 == 0 {
		return -1, EACCES
	}
	pin, err := real.Open(path, real.O_PATH|real.O_CLOEXEC, 0)
	if err != nil {
		return -1, err
	}
	fd = k.alloc(&file{kind: kVnode, ino: st.Ino, path: path, pin: pin})
	k.Log = append(k.Log, OpenRec{Fd: fd, Kind: "vnode", Path: path, Ino: st.Ino})
	return fd, nil
}

func Close(fd int) (err error) {
	vsched.Step(fmt.Sprintf("close %d", fd))
	defer func() { vsched.Observe("close", fd, fmt.Sprint(err)) }()
	k := kern()
	f, ok := k.fds[fd]
	if !ok {
		return EBADF
	}
	delete(k.fds, fd)
	k.Log = append(k.Log, OpenRec{Fd: fd, Kind: kindName(f.kind), Path: f.path, Ino: f.ino, Close: true})
	if f.pin >= 0 {
		real.Close(f.pin)
	}
	// knotes die with the descriptor they are attached to
	for _, q := range k.kqs {
		for key := range q.notes {
			if key[0] == fd {
				delete(q.notes, key)
			}
		}
	}
	switch f.kind {
	case kKqueue:
		delete(k.kqs, fd)
	case kPipeW:
		f.pipe.wclosed = true
		// EOF on the read end activates EVFILT_READ knotes there
		for _, q := range k.kqs {
			if n := q.notes[[2]int{f.pipe.r, EVFILT_READ}]; n != nil && !n.active {
				n.active = true
				n.seq = q.actSeq
				q.actSeq++
			}
		}
	}
	return nil
}

// Kevent registers changes and/or waits for events. A wait (events non-empty)
// blocks, as a scheduling point, until some knote of the queue is active.
func Kevent(kqfd int, changes, events []Kevent_t, timeout *Timespec) (cnt int, err error) {
	defer func() {
		var got []string
		for i := 0; i < cnt && i < len(events); i++ {
			got = append(got, fmt.Sprintf("%d/%d/%#x/%#x", events[i].Ident, events[i].Filter, events[i].Flags, events[i].Fflags))
		}
		vsched.Observe("kevent", len(changes), cnt, fmt.Sprint(err), got)
	}()
	k := kern()
	if len(changes) > 0 {
		vsched.Step(fmt.Sprintf("kevent register %d", len(changes)))
		q, ok := k.kqs[kqfd]
		if !ok {
			return -1, EBADF
		}
		for _, c := range changes {
			fd := int(c.Ident)
			f, open := k.fds[fd]
			key := [2]int{fd, int(c.Filter)}
			switch {
			case c.Flags&EV_DELETE != 0:
				if _, ok := q.notes[key]; !ok {
					if !open {
						return -1, EBADF
					}
					return -1, ENOENT
				}
				delete(q.notes, key)
			case c.Flags&EV_ADD != 0:
				if !open {
					return -1, EBADF
				}
				n := q.notes[key]
				if n == nil {
					n = &knote{fd: fd, filter: c.Filter}
					q.notes[key] = n
				}
				n.flags = c.Flags
				n.want = c.Fflags
				if c.Filter == EVFILT_READ && f.kind == kPipeR && f.pipe.wclosed && !n.active {
					n.active = true
					n.seq = q.actSeq
					q.actSeq++
				}
			}
		}
	}
	if len(events) == 0 {
		return 0, nil
	}
	var q *kq
	vsched.Gate("kevent wait", func() bool {
		qq, ok := k.kqs[kqfd]
		if !ok {
			return true
		}
		for _, n := range qq.notes {
			if n.active {
				return true
			}
		}
		return false
	})
	q, ok := k.kqs[kqfd]
	if !ok {
		return -1, EBADF
	}
	var act []*knote
	for _, n := range q.notes {
		if n.active {
			act = append(act, n)
		}
	}
	sort.Slice(act, func(i, j int) bool { return act[i].seq < act[j].seq })
	cnt = 0
	for _, n := range act {
		if cnt == len(events) {
			break
		}
		ev := Kevent_t{Ident: uint64(n.fd), Filter: n.filter, Flags: n.flags &^ (EV_ADD | EV_ENABLE), Fflags: n.pending}
		if n.filter == EVFILT_READ {
			ev.Flags |= EV_EOF
		}
		events[cnt] = ev
		cnt++
		n.active = false
		if n.flags&EV_CLEAR != 0 || n.filter == EVFILT_VNODE {
			n.pending = 0
		}
		if n.flags&EV_ONESHOT != 0 {
			delete(q.notes, [2]int{n.fd, int(n.filter)})
		}
	}
	return cnt, nil
}

// Post raises vnode notes on every open descriptor of the inode.
func (k *Kernel) Post(ino uint64, fflags uint32) {
	for fd, f := range k.fds {
		if f.kind != kVnode || f.ino != ino {
			continue
		}
		for _, q := range k.kqs {
			n := q.notes[[2]int{fd, EVFILT_VNODE}]
			if n == nil || n.want&fflags == 0 {
				continue
			}
			n.pending |= n.want & fflags
			if !n.active {
				n.active = true
				n.seq = q.actSeq
				q.actSeq++
			}
		}
	}
}

// OpenFiles lists what is open, by kind.
func (k *Kernel) OpenFiles() (vnodes map[int]uint64, other []string) {
	vnodes = map[int]uint64{}
	var fds []int
	for fd := range k.fds {
		fds = append(fds, fd)
	}
	sort.Ints(fds)
	for _, fd := range fds {
		f := k.fds[fd]
		if f.kind == kVnode {
			vnodes[fd] = f.ino
		} else {
			other = append(other, fmt.Sprintf("%d:%s", fd, kindName(f.kind)))
		}
	}
	return
}

// PathOf returns the path a vnode descriptor was opened with.
func (k *Kernel) PathOf(fd int) string {
	if f := k.fds[fd]; f != nil {
		return f.path
	}
	return ""
}

// Cleanup releases the real descriptors pinning inodes.
func (k *Kernel) Cleanup() {
	for fd, f := range k.fds {
		if f.pin >= 0 {
			real.Close(f.pin)
		}
		delete(k.fds, fd)
	}
}

// Pending reports whether any knote of any queue is active (quiescence check).
func (k *Kernel) Pending() bool {
	for _, q := range k.kqs {
		for _, n := range q.notes {
			if n.active {
				return true
			}
		}
	}
	return false
}

// KeyPart renders the simulated kernel for the global state key: the
// descriptor table (inodes by label), pipes, knotes with the relative order of
// the active ones, fault scripts left. "" when an open inode has no label
// (then the state must not be merged with any other).
func (k *Kernel) KeyPart() string {
	var fds []int
	for fd := range k.fds {
		fds = append(fds, fd)
	}
	sort.Ints(fds)
	var b []string
	for _, fd := range fds {
		f := k.fds[fd]
		switch f.kind {
		case kVnode:
			l, ok := k.Labels[f.ino]
			if !ok {
				return ""
			}
			b = append(b, fmt.Sprintf("%d=v:%s:%s", fd, l, f.path))
		case kPipeR, kPipeW:
			b = append(b, fmt.Sprintf("%d=%s:%d/%d/%t", fd, kindName(f.kind), f.pipe.r, f.pipe.w, f.pipe.wclosed))
		default:
			b = append(b, fmt.Sprintf("%d=kq", fd))
		}
	}
	var qs []int
	for fd := range k.kqs {
		qs = append(qs, fd)
	}
	sort.Ints(qs)
	for _, qfd := range qs {
		q := k.kqs[qfd]
		var ns []*knote
		for _, n := range q.notes {
			ns = append(ns, n)
		}
		sort.Slice(ns, func(i, j int) bool {
			if ns[i].fd != ns[j].fd {
				return ns[i].fd < ns[j].fd
			}
			return ns[i].filter < ns[j].filter
		})
		for _, n := range ns {
			rank := -1
			if n.active {
				rank = 0
				for _, m := range ns {
					if m.active && m.seq < n.seq {
						rank++
					}
				}
			}
			b = append(b, fmt.Sprintf("q%d:%d/%d/%#x/%#x/%#x/%d", qfd, n.fd, n.filter, n.flags, n.want, n.pending, rank))
		}
	}
	if len(k.OpenFail) > 0 {
		b = append(b, fmt.Sprintf("nopen=%d", k.nOpen))
	}
	return strings.Join(b, " ")
}

// Label gives an inode a schedule-independent name (first label wins).
func (k *Kernel) Label(ino uint64, label string) {
	if k.Labels == nil {
		k.Labels = map[uint64]string{}
	}
	if _, ok := k.Labels[ino]; !ok {
		k.Labels[ino] = label
	}
}
