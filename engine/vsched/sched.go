// Package vsched is a cooperative scheduler: exactly one "thread" (a real
// goroutine) runs at any time; every synchronisation operation of the code
// under test (rewritten by vinst to call this package) is a scheduling point at
// which the scheduler picks, from the enabled threads, the one prescribed by a
// choice prefix (or choice 0 beyond it). All choices with more than one option
// are recorded so an explorer can enumerate the alternatives.
package vsched

import (
	"fmt"
	"os"
	"reflect"
	"runtime"
	"sort"
	"strings"
	"time"
)

// Marker keeps imports alive in rewritten files.
var Marker = 0

type Kind int

const (
	KStart Kind = iota
	KLock
	KRLock
	KSend
	KRecv
	KSelect
	KClose
	KSys      // always enabled external step (syscall, harness operation)
	KGate     // enabled iff op.gate() is true (e.g. inotify read: FIONREAD>0)
	KWaitIdle // enabled iff no other thread is enabled
	KOnce
	KWGWait
)

var kindName = map[Kind]string{KStart: "start", KLock: "lock", KRLock: "rlock", KSend: "send", KRecv: "recv",
	KSelect: "select", KClose: "close", KSys: "sys", KGate: "gate", KWaitIdle: "waitidle", KOnce: "once", KWGWait: "wgwait"}

type selCase struct {
	ch   *chanState // nil for nil channel
	send bool
	val  any
}

type op struct {
	kind      Kind
	label     string
	mu        *muState
	ch        *chanState
	val       any
	cases     []selCase
	hasDef    bool
	gate      func() bool
	once      *Once
	wg        *WaitGroup
	since     int // step at which the op became pending (FIFO order of channel waiters)
	gateEpoch int
	gateVal   bool
}

type opResult struct {
	idx int
	val any
	ok  bool
}

type Thread struct {
	ID        int
	Name      string
	wake      chan struct{}
	exited    chan struct{}
	pend      *op
	completed bool // pending op was completed by a rendezvous partner
	res       opResult
	done      bool
	Library   bool       // spawned from inside the code under test
	NoShared  bool       // a harness thread that never runs code under test nor looks at shared memory (a consumer)
	hist      uint64     // hash of everything this thread has observed so far (state-key pruning)
	held      []*muState // mutexes this thread holds (read or write), for the dynamic lockset check
	// blockedOn describes the pending op at the end of the execution (for reports)
}

// Point is one recorded choice with more than one option.
type Point struct {
	Select     bool  // choice among ready select cases (free)
	N          int   // number of options
	Chosen     int   // option taken
	CurEnabled bool  // thread choice: the running thread was option 0 and still enabled
	Threads    []int // thread choice: ids in option order
	Step       int
}

// EngineError is raised (as a panic value) for conditions that are the
// engine's fault, never a property verdict.
type EngineError struct{ Msg string }

func (e EngineError) Error() string { return "engine error: " + e.Msg }

type Sched struct {
	threads   []*Thread
	cur       *Thread
	prefix    []int
	Points    []Point
	Steps     int
	MaxSteps  int
	chans     map[any]*chanState
	chanSeq   int
	muSeq     int
	ended     bool
	aborting  bool
	endCh     chan struct{}
	Trace     []string // one line per performed op (for replay / determinism check)
	KeepTrace bool
	traceHash uint64
	// Failure is set when the code under test did something Go would panic on
	// (send on closed channel, close of closed channel, unlock of unlocked mutex) or panicked.
	Failure   string
	engineErr *EngineError
	OnStep    func(s *Sched) // optional hook run before each pick (state-key pruning)
	// Shared, if set (state-key pruning), digests the memory the threads share outside the scheduler's
	// own objects (the library's tables). A thread can read it only while it runs, i.e. between two of
	// its scheduling points, during which nobody else runs: folding the digest into its history when it
	// is resumed makes the history cover everything it can have read (see foldShared for when).
	Shared   func() string
	inShared bool
	// the execution's clock (timer.go): frozen at its first use, moved only by Advance
	clockBase   time.Time
	clockOffset time.Duration
	Prune       bool // set by OnStep to cut the execution
	Pruned      bool
	Locals      map[string]any // per-execution storage for other packages (vsys, harness)
	sysEpoch    int
	Lockset     []string // guarded state touched without its mutex (lockset assertions)
	touched     map[uintptr]*touchState
	mus         []*muState
	unstable    bool
	stable      map[uintptr]string
}

var cur *Sched

// Cur returns the scheduler of the running execution (nil outside one).
func Cur() *Sched { return cur }

func New(prefix []int) *Sched {
	return &Sched{prefix: prefix, chans: map[any]*chanState{}, endCh: make(chan struct{}, 1),
		MaxSteps: 200000, Locals: map[string]any{}, traceHash: 1469598103934665603}
}

func (s *Sched) trace(t *Thread, what string) {
	line := fmt.Sprintf("T%d %s", t.ID, what)
	for i := 0; i < len(line); i++ {
		s.traceHash ^= uint64(line[i])
		s.traceHash *= 1099511628211
	}
	s.traceHash ^= 0xff
	s.traceHash *= 1099511628211
	if s.KeepTrace {
		s.Trace = append(s.Trace, fmt.Sprintf("%4d %s(%s) %s", s.Steps, t.Name, tid(t), what))
	}
}

func tid(t *Thread) string { return fmt.Sprintf("T%d", t.ID) }

// TraceHash identifies the sequence of operations performed so far.
func (s *Sched) TraceHash() uint64 { return s.traceHash }

// Note adds a harness observation to the trace (and its hash).
func (s *Sched) Note(what string) {
	if s.cur != nil {
		s.trace(s.cur, "note "+what)
	}
}

// Run executes main as thread 0 and returns when the execution has ended:
// every thread finished, or none is enabled. Afterwards all parked threads
// are unwound (runtime.Goexit) so nothing leaks into the next execution.
func (s *Sched) Run(main func()) {
	if cur != nil {
		panic(EngineError{"nested Run"})
	}
	cur = s
	t := s.newThread("main", false)
	s.cur = t
	go s.threadBody(t, main)
	t.wake <- struct{}{}
	select {
	case <-s.endCh:
	case <-time.After(StallTimeout):
		// Either a thread of the code under test is spinning without ever reaching a
		// synchronisation point (a verdict: it will never let go of what it holds), or
		// some thread is blocked outside the scheduler (an uninstrumented blocking
		// operation: nothing can be concluded). The goroutine cannot be recovered
		// either way - the whole worker process is given up.
		if OnStall != nil {
			if where := spinningInCodeUnderTest(s); where != "" {
				OnStall(s, where) // does not return if it takes the verdict
			}
		}
		fmt.Fprintf(os.Stderr, "ENGINE-ERROR: execution stalled for %v at step %d: a thread is blocked outside the scheduler (uninstrumented blocking operation?)\n", StallTimeout, s.Steps)
		os.Exit(3)
	}
	s.ended = true
}

// OnStall is told when an execution stalled because a goroutine is busy inside
// the code under test (where = its top frames there).
var OnStall func(s *Sched, where string)

// spinningInCodeUnderTest looks at the goroutine dump twice, two seconds apart:
// a goroutine that is running or runnable both times inside the generated
// packages while the step counter stands still is spinning.
func spinningInCodeUnderTest(s *Sched) string {
	look := func() (string, int) {
		buf := make([]byte, 4<<20)
		n := runtime.Stack(buf, true)
		for _, g := range strings.Split(string(buf[:n]), "\n\n") {
			head := g
			if i := strings.Index(g, "\n"); i >= 0 {
				head = g[:i]
			}
			if !strings.Contains(head, "[running]") && !strings.Contains(head, "[runnable]") {
				continue
			}
			var frames []string
			for _, l := range strings.Split(g, "\n") {
				if strings.HasPrefix(l, "verif/gen/") {
					if i := strings.Index(l, "("); i > 0 {
						l = l[:i]
					}
					frames = append(frames, strings.TrimPrefix(l, "verif/gen/"))
				}
			}
			if len(frames) > 0 {
				if len(frames) > 3 {
					frames = frames[:3]
				}
				return strings.Join(frames, " < "), s.Steps
			}
		}
		return "", s.Steps
	}
	w1, n1 := look()
	if w1 == "" {
		return ""
	}
	time.Sleep(2 * time.Second)
	w2, n2 := look()
	if w2 == "" || n1 != n2 {
		return ""
	}
	return w2
}

// StallTimeout bounds one execution in wall-clock time; it is a liveness guard
// of the engine, never an oracle.
var StallTimeout = 60 * time.Second

// Teardown unwinds every thread that is still parked. Must be called after
// Run (the harness inspects the end state in between).
func (s *Sched) Teardown() {
	cur = s
	s.aborting = true
	for _, t := range s.threads {
		if !t.done {
			s.cur = t
			t.wake <- struct{}{}
		}
		<-t.exited
	}
	cur = nil
}

func (s *Sched) newThread(name string, lib bool) *Thread {
	t := &Thread{ID: len(s.threads), Name: name, wake: make(chan struct{}, 1), exited: make(chan struct{}), Library: lib}
	t.pend = &op{kind: KStart, since: s.Steps}
	s.threads = append(s.threads, t)
	return t
}

func (s *Sched) threadBody(t *Thread, f func()) {
	defer close(t.exited)
	<-t.wake
	if s.aborting {
		t.done = true
		return
	}
	t.pend = nil
	s.trace(t, "start")
	defer func() {
		if s.aborting {
			t.done = true
			return
		}
		if r := recover(); r != nil {
			if ee, ok := r.(EngineError); ok {
				s.engineErr = &ee
			} else {
				buf := make([]byte, 16384)
				buf = buf[:runtime.Stack(buf, false)]
				s.Failure = fmt.Sprintf("panic in thread %s: %v\n%s", t.Name, r, trimStack(string(buf)))
			}
			t.done = true
			s.finish()
			return
		}
		// normal exit: hand over
		t.done = true
		s.trace(t, "exit")
		next := s.pick()
		if next == nil {
			s.finish()
			return
		}
		s.cur = next
		next.wake <- struct{}{}
	}()
	f()
}

func trimStack(st string) string {
	lines := strings.Split(st, "\n")
	var out []string
	for _, l := range lines {
		if strings.Contains(l, "/engine/vsched/") || strings.Contains(l, "runtime/") || strings.Contains(l, "vsched.") {
			continue
		}
		out = append(out, l)
		if len(out) > 24 {
			break
		}
	}
	return strings.Join(out, "\n")
}

func (s *Sched) finish() {
	select {
	case s.endCh <- struct{}{}:
	default:
	}
}

// Go starts f as a new thread (rewritten from a go statement in the code
// under test when lib is true).
func (s *Sched) spawn(name string, lib bool, f func()) *Thread {
	t := s.newThread(name, lib)
	go s.threadBody(t, f)
	return t
}

// Go is what `go f()` in the code under test is rewritten to.
func Go(f func()) {
	s := cur
	if s == nil {
		go f()
		return
	}
	if s.aborting {
		return
	}
	s.spawn(fmt.Sprintf("lib%d", len(s.threads)), true, f)
}

// GoNamed starts a harness thread.
func GoNamed(name string, f func()) *Thread {
	s := cur
	if s == nil {
		panic(EngineError{"GoNamed outside execution"})
	}
	return s.spawn(name, false, f)
}

func (s *Sched) enabled(t *Thread, o *op) bool {
	if t.completed {
		return true
	}
	switch o.kind {
	case KStart, KClose, KSys:
		return true
	case KLock:
		return !o.mu.w && o.mu.r == 0
	case KRLock:
		return !o.mu.w
	case KSend:
		return o.ch != nil && s.sendReady(t, o.ch)
	case KRecv:
		return o.ch != nil && s.recvReady(t, o.ch)
	case KSelect:
		if o.hasDef {
			return true
		}
		for _, c := range o.cases {
			if c.ch == nil {
				continue
			}
			if c.send && s.sendReady(t, c.ch) || !c.send && s.recvReady(t, c.ch) {
				return true
			}
		}
		return false
	case KGate:
		// the kernel-side condition can only change through a syscall step
		if o.gateEpoch != s.sysEpoch+1 {
			o.gateVal = o.gate()
			o.gateEpoch = s.sysEpoch + 1
		}
		return o.gateVal
	case KOnce:
		return !o.once.running
	case KWGWait:
		return o.wg.n == 0
	case KWaitIdle:
		return false // handled in pick
	}
	panic(EngineError{"unknown op kind"})
}

// pick computes the enabled set in canonical order (running thread first if
// still enabled, then ascending ids) and takes the prescribed choice.
func (s *Sched) pick() *Thread {
	if s.engineErr != nil || s.Failure != "" {
		return nil
	}
	if s.OnStep != nil {
		s.OnStep(s)
		if s.Prune {
			s.Pruned = true
			return nil
		}
	}
	var en []*Thread
	var idle []*Thread
	curEnabled := false
	for _, t := range s.threads {
		if t.done || t.pend == nil {
			continue
		}
		if t.pend.kind == KWaitIdle && !t.completed {
			idle = append(idle, t)
			continue
		}
		if s.enabled(t, t.pend) {
			if t == s.cur {
				curEnabled = true
			} else {
				en = append(en, t)
			}
		}
	}
	if curEnabled {
		en = append([]*Thread{s.cur}, en...)
	}
	if len(en) == 0 {
		// only now do WaitIdle threads become enabled
		for _, t := range idle {
			if t == s.cur {
				en = append([]*Thread{t}, en...)
				curEnabled = true
			} else {
				en = append(en, t)
			}
		}
	}
	if len(en) == 0 {
		return nil
	}
	if len(en) == 1 {
		return en[0]
	}
	c := s.choose(len(en))
	ids := make([]int, len(en))
	for i, t := range en {
		ids[i] = t.ID
	}
	s.Points = append(s.Points, Point{N: len(en), Chosen: c, CurEnabled: curEnabled, Threads: ids, Step: s.Steps})
	return en[c]
}

func (s *Sched) choose(n int) int {
	i := len(s.Points)
	if i < len(s.prefix) {
		c := s.prefix[i]
		if c < 0 || c >= n {
			panic(EngineError{fmt.Sprintf("replay divergence: choice %d out of range %d at point %d", c, n, i)})
		}
		return c
	}
	return 0
}

// yield publishes the thread's next operation, lets the scheduler pick who
// runs, and performs the operation once this thread has been picked.
func (s *Sched) yield(o *op) opResult {
	t := s.cur
	if t == nil {
		panic(EngineError{"yield without current thread"})
	}
	s.Steps++
	if s.Steps > s.MaxSteps {
		panic(EngineError{fmt.Sprintf("step limit %d exceeded (livelock?)", s.MaxSteps)})
	}
	o.since = s.Steps
	t.pend = o
	t.completed = false
	next := s.pick()
	if next == nil {
		s.finish()
		<-t.wake
		if s.aborting {
			runtime.Goexit()
		}
		panic(EngineError{"woken after end without abort"})
	}
	if next != t {
		s.cur = next
		next.wake <- struct{}{}
		<-t.wake
		if s.aborting {
			runtime.Goexit()
		}
	}
	// running as s.cur == t
	if t.completed {
		t.completed = false
		t.pend = nil
		s.trace(t, fmt.Sprintf("%s %s (by partner) -> %d %v", kindName[o.kind], o.label, t.res.idx, t.res.ok))
		t.fold(kindName[o.kind], o.label, t.res.idx, t.res.ok, t.res.val)
		t.foldShared(s)
		return t.res
	}
	r := s.perform(t, o)
	t.pend = nil
	t.fold(kindName[o.kind], o.label, r.idx, r.ok, r.val)
	t.foldShared(s)
	return r
}

// foldShared: shared memory is read while holding a mutex (the lock discipline the lockset checks
// enforce on every execution), so the digest is folded each time a thread is resumed holding one and
// when it acquires one; an access outside any mutex that the probes see (Touch) folds it as well.
func (t *Thread) foldShared(s *Sched) {
	if s.Shared != nil && !t.NoShared && len(t.held) > 0 && !s.inShared {
		s.inShared = true
		d := s.Shared()
		s.inShared = false
		t.fold(d)
	}
}

// fold mixes an observation into the thread's history hash.
func (t *Thread) fold(parts ...any) {
	h := t.hist
	if h == 0 {
		h = 1469598103934665603
	}
	for _, p := range parts {
		var str string
		switch v := p.(type) {
		case string:
			str = v
		case nil:
			str = "<nil>"
		default:
			str = fmt.Sprintf("%v", v)
		}
		for i := 0; i < len(str); i++ {
			h ^= uint64(str[i])
			h *= 1099511628211
		}
		h ^= 0xfe
		h *= 1099511628211
	}
	t.hist = h
}

// Observe folds something the running thread has just learnt (a syscall
// result, the return value of an API call) into its history.
func Observe(parts ...any) {
	s := cur
	if s == nil || s.cur == nil || s.aborting || s.ended {
		return
	}
	s.cur.fold(parts...)
}

// Key renders the global state at a scheduling point: every thread's history,
// pending operation and completion status, every registered mutex and channel,
// plus whatever the harness adds (kernel queue lengths, library tables). Two
// execution prefixes with equal keys have equal futures: each thread is a
// deterministic function of its own history, and the shared state is listed.
// Objects are identified by the stable ids RegisterTree gave them; an object
// first used without one makes the key unusable (returns ""), so nothing is
// ever merged on an unstable name.
func (s *Sched) Key(extra string) string {
	if s.unstable {
		return ""
	}
	var b strings.Builder
	for _, t := range s.threads {
		fmt.Fprintf(&b, "T%s:%t:%x", t.Name, t.done, t.hist)
		if t.pend != nil {
			fmt.Fprintf(&b, ":%s:%s:%t", kindName[t.pend.kind], t.pend.label, t.completed)
			if t.completed {
				fmt.Fprintf(&b, ":%d:%t:%v", t.res.idx, t.res.ok, t.res.val)
			}
		}
		b.WriteByte(';')
	}
	var ms []string
	for _, m := range s.mus {
		ms = append(ms, fmt.Sprintf("%s=%t/%d/%d", m.label, m.w, m.r, m.owner))
	}
	sort.Strings(ms)
	b.WriteString(strings.Join(ms, ","))
	b.WriteByte('|')
	var cs []string
	for _, c := range s.chans {
		cs = append(cs, fmt.Sprintf("%s=%t:%v", c.label, c.closed, c.buf))
	}
	sort.Strings(cs)
	b.WriteString(strings.Join(cs, ","))
	b.WriteByte('|')
	b.WriteString(extra)
	return b.String()
}

// Blocked describes, for the end state, every thread that has not finished.
type Blocked struct {
	Thread  string
	ID      int
	Library bool
	Kind    string
	Label   string
}

func (s *Sched) BlockedThreads() []Blocked {
	var out []Blocked
	for _, t := range s.threads {
		if t.done {
			continue
		}
		b := Blocked{Thread: t.Name, ID: t.ID, Library: t.Library}
		if t.pend != nil {
			b.Kind = kindName[t.pend.kind]
			b.Label = t.pend.label
		}
		out = append(out, b)
	}
	return out
}

func (s *Sched) EngineErr() *EngineError { return s.engineErr }

// ThreadDone reports whether the thread finished its body.
func (t *Thread) Done() bool { return t.done }

func (s *Sched) Threads() []*Thread { return s.threads }

// Step is an always-enabled scheduling point for harness operations and
// syscall seams.
func Step(label string) {
	s := cur
	if s == nil || s.aborting {
		return
	}
	s.yield(&op{kind: KSys, label: label})
}

// Gate is a scheduling point enabled only while ready() holds.
func Gate(label string, ready func() bool) {
	s := cur
	if s == nil || s.aborting {
		return
	}
	s.yield(&op{kind: KGate, label: label, gate: ready})
}

// WaitIdle blocks the calling harness thread until no other thread is enabled.
func WaitIdle() {
	s := cur
	if s == nil || s.aborting {
		return
	}
	s.yield(&op{kind: KWaitIdle, label: "idle"})
}

// Sleep replaces time.Sleep in the code under test: just a scheduling point.
func Sleep(d any) { Step("sleep") }

func (s *Sched) perform(t *Thread, o *op) opResult {
	switch o.kind {
	case KSys, KGate, KWaitIdle, KStart:
		if o.kind == KSys || o.kind == KGate {
			s.sysEpoch++
		}
		s.trace(t, kindName[o.kind]+" "+o.label)
		return opResult{}
	case KLock:
		o.mu.w = true
		o.mu.owner = t.ID
		t.held = append(t.held, o.mu)
		s.trace(t, "lock "+o.label)
		return opResult{}
	case KRLock:
		o.mu.r++
		t.held = append(t.held, o.mu)
		s.trace(t, "rlock "+o.label)
		return opResult{}
	case KOnce:
		s.trace(t, "once "+o.label)
		return opResult{}
	case KWGWait:
		s.trace(t, "wgwait "+o.label)
		return opResult{}
	case KSend:
		s.doSend(t, o.ch, o.val)
		s.trace(t, "send "+o.label)
		return opResult{}
	case KRecv:
		v, ok := s.doRecv(t, o.ch)
		s.trace(t, fmt.Sprintf("recv %s -> %v", o.label, ok))
		return opResult{val: v, ok: ok}
	case KClose:
		if o.ch == nil {
			s.fail("close of nil channel")
		}
		if o.ch.closed {
			s.fail("close of closed channel " + o.label)
		}
		o.ch.closed = true
		s.trace(t, "close "+o.label)
		return opResult{}
	case KSelect:
		var ready []int
		for i, c := range o.cases {
			if c.ch == nil {
				continue
			}
			if c.send && s.sendReady(t, c.ch) || !c.send && s.recvReady(t, c.ch) {
				ready = append(ready, i)
			}
		}
		if len(ready) == 0 {
			if !o.hasDef {
				panic(EngineError{"select performed with no ready case"})
			}
			s.trace(t, "select "+o.label+" -> default")
			return opResult{idx: -1}
		}
		k := 0
		if len(ready) > 1 {
			k = s.choose(len(ready))
			s.Points = append(s.Points, Point{Select: true, N: len(ready), Chosen: k, Step: s.Steps})
		}
		i := ready[k]
		c := o.cases[i]
		if c.send {
			s.doSend(t, c.ch, c.val)
			s.trace(t, fmt.Sprintf("select %s -> send case %d", o.label, i))
			return opResult{idx: i}
		}
		v, ok := s.doRecv(t, c.ch)
		s.trace(t, fmt.Sprintf("select %s -> recv case %d %v", o.label, i, ok))
		return opResult{idx: i, val: v, ok: ok}
	}
	panic(EngineError{"perform: unknown kind"})
}

// fail records something Go itself would have panicked on (which would kill
// the process) and ends the execution right here, without unwinding through
// the code under test.
func (s *Sched) fail(msg string) {
	if s.Failure == "" {
		s.Failure = "runtime panic: " + msg
	}
	t := s.cur
	s.trace(t, "FAIL "+msg)
	s.finish()
	<-t.wake
	runtime.Goexit()
}

// AssertHeld is inserted by vinst in front of statements touching guarded state.
func AssertHeld(held bool, where, what string) {
	s := cur
	if s == nil || s.aborting || s.ended || s.cur == nil {
		return
	}
	if !held {
		s.Lockset = append(s.Lockset, fmt.Sprintf("%s touches %s without holding its mutex (thread %s)", where, what, s.cur.Name))
	}
}

// CurName returns the name of the running thread.
func CurName() string {
	s := cur
	if s == nil || s.cur == nil {
		return "-"
	}
	return s.cur.Name
}

// CurID returns the id of the running thread (-1 outside an execution).
func CurID() int {
	s := cur
	if s == nil || s.cur == nil {
		return -1
	}
	return s.cur.ID
}

// PrefixLen is the number of prescribed choices of this execution.
func (s *Sched) PrefixLen() int { return len(s.prefix) }

// ---- dynamic lockset check (Eraser) for maps ----
//
// The typed instrumentation pass puts a Touch in front of every statement that
// indexes, ranges over, deletes from or takes the length of a map. For every
// map (by identity) the set of mutexes held at *every* access so far is
// intersected; once two different threads have accessed the map and the
// intersection is empty, there is no mutex that protects it: in a real
// execution those accesses can race (Go would even abort with "concurrent map
// iteration and map write"). Checked on every explored schedule.

type touchState struct {
	locks    map[*muState]bool
	threads  map[int]string
	first    string
	reported bool
}

func (t *Thread) drop(m *muState) {
	for i := len(t.held) - 1; i >= 0; i-- {
		if t.held[i] == m {
			t.held = append(t.held[:i], t.held[i+1:]...)
			return
		}
	}
}

// Touch records an access to map m at source position where.
func Touch(m any, where string) {
	s := cur
	if s == nil || s.aborting || s.ended || s.cur == nil {
		return
	}
	v := reflect.ValueOf(m)
	if !v.IsValid() || v.Kind() != reflect.Map || v.IsNil() {
		return
	}
	if s.inShared {
		return // the digest function itself (it builds maps of its own)
	}
	if s.Shared != nil && len(s.cur.held) == 0 {
		// an unprotected look at shared memory: make the history say what was seen
		s.inShared = true
		d := s.Shared()
		s.inShared = false
		s.cur.fold(d)
	}
	key := v.Pointer()
	if s.touched == nil {
		s.touched = map[uintptr]*touchState{}
	}
	st := s.touched[key]
	t := s.cur
	if st == nil {
		st = &touchState{locks: map[*muState]bool{}, threads: map[int]string{}, first: where}
		for _, h := range t.held {
			st.locks[h] = true
		}
		s.touched[key] = st
	} else {
		for l := range st.locks {
			still := false
			for _, h := range t.held {
				if h == l {
					still = true
				}
			}
			if !still {
				delete(st.locks, l)
			}
		}
	}
	st.threads[t.ID] = t.Name
	if len(st.threads) >= 2 && len(st.locks) == 0 && !st.reported {
		st.reported = true
		var names []string
		for _, n := range st.threads {
			names = append(names, n)
		}
		sort.Strings(names)
		s.Lockset = append(s.Lockset, fmt.Sprintf("%s accesses a map (first touched at %s) that threads %v use without a common mutex", where, st.first, names))
	}
}
