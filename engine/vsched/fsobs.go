package vsched

import (
	"io/fs"
	"os"
)

// Reads of the filesystem by the code under test are inputs of the calling
// thread: their results are folded into its history (state-key pruning), so
// that two prefixes are only merged when every thread has seen the same.
// They are not scheduling points: the harness's filesystem operations are.

func OsLstat(name string) (fs.FileInfo, error) {
	fi, err := os.Lstat(name)
	if err != nil {
		Observe("lstat", name, err.Error())
	} else {
		Observe("lstat", name, fi.Mode().String(), fi.Size())
	}
	return fi, err
}

func OsReadDir(name string) ([]os.DirEntry, error) {
	l, err := os.ReadDir(name)
	names := make([]string, 0, len(l))
	for _, e := range l {
		names = append(names, e.Name()+":"+e.Type().String())
	}
	Observe("readdir", name, names, err != nil)
	return l, err
}

func OsReadlink(name string) (string, error) {
	t, err := os.Readlink(name)
	Observe("readlink", name, t, err != nil)
	return t, err
}
