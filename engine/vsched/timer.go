package vsched

import "time"

// Timers are modelled without a clock: a timer may fire at any moment after
// it was armed. A timer channel is therefore a buffered channel that already
// holds its tick; a select with a timer arm has that arm ready from the
// start, and which ready arm is taken is a choice point like any other, so
// both "the timer wins" and "the other arm wins" are explored. This is an
// over-approximation (no duration is ever too short to elapse), which is the
// only sound reading for a scheduler without time: no wall-clock length of a
// consumer's absence is excluded by the API.

// After replaces time.After.
func After(d time.Duration) chan time.Time { return NewTimer(d).C }

// Timer replaces time.Timer.
type Timer struct {
	C       chan time.Time
	stopped bool
	fn      bool
}

func arm(c chan time.Time) {
	s := cur
	if s == nil {
		select {
		case c <- time.Time{}:
		default:
		}
		return
	}
	cs := s.chanOf(any(c), 1, false)
	if len(cs.buf) == 0 {
		cs.buf = append(cs.buf, time.Time{})
	}
}

func disarm(c chan time.Time) bool {
	s := cur
	if s == nil {
		select {
		case <-c:
			return true
		default:
			return false
		}
	}
	cs := s.chanOf(any(c), 1, false)
	had := len(cs.buf) > 0
	cs.buf = nil
	return had
}

// NewTimer replaces time.NewTimer.
func NewTimer(d time.Duration) *Timer {
	Step("timer")
	t := &Timer{C: make(chan time.Time, 1)}
	arm(t.C)
	return t
}

// Stop reports whether the tick had not been consumed yet.
func (t *Timer) Stop() bool {
	Step("timer-stop")
	if t.fn {
		was := !t.stopped
		t.stopped = true
		return was
	}
	return disarm(t.C)
}

// Reset re-arms the timer.
func (t *Timer) Reset(d time.Duration) bool {
	Step("timer-reset")
	had := disarm(t.C)
	arm(t.C)
	return had
}

// AfterFunc replaces time.AfterFunc: f runs in a thread of its own at some
// later scheduling point unless the timer was stopped first.
func AfterFunc(d time.Duration, f func()) *Timer {
	t := &Timer{fn: true}
	Go(func() {
		Step("timer-fire")
		if t.stopped {
			return
		}
		t.stopped = true
		f()
	})
	return t
}

// Clock: there is no passage of time inside an execution except what the
// harness decides. Now is the real time plus an offset that only Advance moves
// (per execution), so code that compares time stamps sees exactly the delays a
// history prescribes ("tick" operations) and nothing else.
func Now() time.Time {
	s := cur
	if s == nil {
		return time.Now()
	}
	if s.clockBase.IsZero() {
		s.clockBase = time.Now()
	}
	return s.clockBase.Add(s.clockOffset)
}

func Since(t time.Time) time.Duration { return Now().Sub(t) }
func Until(t time.Time) time.Duration { return t.Sub(Now()) }

// Advance moves the execution's clock forward (a scheduling point).
func Advance(d time.Duration) {
	Step("tick " + d.String())
	if s := cur; s != nil {
		if s.clockBase.IsZero() {
			s.clockBase = time.Now()
		}
		s.clockOffset += d
	}
}
