package vsched

import (
	"fmt"
	"sync"
	"unsafe"
)

type muState struct {
	id    int
	w     bool
	r     int
	owner int
	label string
}

// Mutex replaces sync.Mutex in the code under test. Outside an execution it
// behaves like the real thing.
type Mutex struct {
	real sync.Mutex
	st   *muState
	sch  *Sched
}

func (m *Mutex) state(s *Sched) *muState {
	if m.st == nil || m.sch != s {
		m.st = s.newMu(uintptr(unsafe.Pointer(m)), "mu")
		m.sch = s
	}
	return m.st
}

func (s *Sched) newMu(addr uintptr, kind string) *muState {
	st := &muState{id: s.muSeq, label: fmt.Sprintf("%s%d", kind, s.muSeq)}
	if id, ok := s.stable[addr]; ok {
		st.label = id
	} else {
		s.unstable = true
	}
	s.muSeq++
	s.mus = append(s.mus, st)
	return st
}

func (m *Mutex) Lock() {
	s := cur
	if s == nil {
		m.real.Lock()
		return
	}
	if s.aborting {
		return
	}
	if s.ended { // post-execution inspection by the controller
		return
	}
	st := m.state(s)
	s.yield(&op{kind: KLock, mu: st, label: st.label})
}

func (m *Mutex) TryLock() bool {
	s := cur
	if s == nil {
		return m.real.TryLock()
	}
	if s.aborting || s.ended {
		return true
	}
	st := m.state(s)
	Step("trylock " + st.label)
	if st.w || st.r > 0 {
		return false
	}
	st.w = true
	st.owner = s.cur.ID
	s.cur.held = append(s.cur.held, st)
	return true
}

// Unlock is not a scheduling point: it commutes with everything another
// thread can do while the lock is held, so switching right after it is
// covered by the switch at the unlocking thread's next point.
func (m *Mutex) Unlock() {
	s := cur
	if s == nil {
		m.real.Unlock()
		return
	}
	if s.aborting || s.ended {
		return
	}
	st := m.state(s)
	if !st.w {
		s.fail("unlock of unlocked mutex " + st.label)
	}
	st.w = false
	s.cur.drop(st)
	s.cur.fold("unlock", st.label)
	s.trace(s.cur, "unlock "+st.label)
}

// HeldBy reports whether the mutex is write-locked and by which thread.
func (m *Mutex) HeldBy() (bool, int) {
	if m.st == nil || m.sch != cur {
		return false, -1
	}
	return m.st.w, m.st.owner
}

// Held reports whether the calling thread holds the mutex (lockset check).
func (m *Mutex) HeldByCurrent() bool {
	s := cur
	if s == nil || s.cur == nil {
		return true
	}
	if m.st == nil || m.sch != s {
		return false
	}
	return m.st.w && m.st.owner == s.cur.ID
}

type RWMutex struct {
	real sync.RWMutex
	st   *muState
	sch  *Sched
}

func (m *RWMutex) state(s *Sched) *muState {
	if m.st == nil || m.sch != s {
		m.st = s.newMu(uintptr(unsafe.Pointer(m)), "rw")
		m.sch = s
	}
	return m.st
}

func (m *RWMutex) Lock() {
	s := cur
	if s == nil {
		m.real.Lock()
		return
	}
	if s.aborting || s.ended {
		return
	}
	st := m.state(s)
	s.yield(&op{kind: KLock, mu: st, label: st.label})
}

func (m *RWMutex) Unlock() {
	s := cur
	if s == nil {
		m.real.Unlock()
		return
	}
	if s.aborting || s.ended {
		return
	}
	st := m.state(s)
	if !st.w {
		s.fail("unlock of unlocked rwmutex " + st.label)
	}
	st.w = false
	s.cur.drop(st)
	s.cur.fold("unlock", st.label)
	s.trace(s.cur, "unlock "+st.label)
}

func (m *RWMutex) RLock() {
	s := cur
	if s == nil {
		m.real.RLock()
		return
	}
	if s.aborting || s.ended {
		return
	}
	st := m.state(s)
	s.yield(&op{kind: KRLock, mu: st, label: st.label})
}

func (m *RWMutex) RUnlock() {
	s := cur
	if s == nil {
		m.real.RUnlock()
		return
	}
	if s.aborting || s.ended {
		return
	}
	st := m.state(s)
	if st.r <= 0 {
		s.fail("runlock of unlocked rwmutex " + st.label)
	}
	st.r--
	s.cur.drop(st)
	s.cur.fold("runlock", st.label)
	s.trace(s.cur, "runlock "+st.label)
}

func (m *RWMutex) HeldByCurrent() bool {
	s := cur
	if s == nil || s.cur == nil {
		return true
	}
	if m.st == nil || m.sch != s {
		return false
	}
	return m.st.w && m.st.owner == s.cur.ID
}

// RHeld reports whether some lock (read or write) is held at all.
func (m *RWMutex) AnyHeld() bool {
	if m.st == nil || m.sch != cur {
		return false
	}
	return m.st.w || m.st.r > 0
}

// Once replaces sync.Once.
type Once struct {
	done    bool
	running bool
	sch     *Sched
}

func (o *Once) Do(f func()) {
	s := cur
	if s == nil || s.aborting || s.ended {
		if !o.done {
			o.done = true
			f()
		}
		return
	}
	if o.sch != s {
		o.sch, o.done, o.running = s, false, false
	}
	s.yield(&op{kind: KOnce, once: o, label: "once"})
	if o.done {
		return
	}
	o.running = true
	defer func() { o.running = false; o.done = true }()
	f()
}

// WaitGroup replaces sync.WaitGroup.
type WaitGroup struct {
	n   int
	sch *Sched
}

func (w *WaitGroup) Add(d int) {
	if w.sch != cur {
		w.sch, w.n = cur, 0
	}
	w.n += d
}
func (w *WaitGroup) Done() { w.Add(-1) }
func (w *WaitGroup) Wait() {
	s := cur
	if s == nil || s.aborting || s.ended {
		return
	}
	if w.sch != s {
		w.sch, w.n = s, 0
	}
	s.yield(&op{kind: KWGWait, wg: w, label: "wg"})
}
