package vsched

import (
	"fmt"
	"reflect"
	"sort"
	"strings"
)

// Channels of the code under test stay real Go channels, but only as
// identities (and for cap()): no value ever travels through them. The shim
// keeps its own queue per channel and implements Go's semantics.

type chanState struct {
	id     int
	capa   int
	buf    []any
	closed bool
	label  string
}

func (s *Sched) chanOf(key any, capa int, isNil bool) *chanState {
	if isNil {
		return nil
	}
	c := s.chans[key]
	if c == nil {
		c = &chanState{id: s.chanSeq, capa: capa, label: fmt.Sprintf("ch%d", s.chanSeq)}
		if id, ok := s.stable[reflect.ValueOf(key).Pointer()]; ok {
			c.label = id
		} else {
			s.unstable = true
		}
		s.chanSeq++
		s.chans[key] = c
	}
	return c
}

// NameChan gives a channel a readable label in traces.
func NameChan[T any](c chan T, name string) {
	s := cur
	if s == nil || c == nil {
		return
	}
	cs := s.chanOf(any(c), cap(c), false)
	if !strings.HasPrefix(cs.label, "ch") { // keep a stable id if it has one
		return
	}
	cs.label = name
}

func (s *Sched) pendingRecv(self *Thread, c *chanState) *Thread {
	var best *Thread
	for _, t := range s.threads {
		if t == self || t.done || t.pend == nil || t.completed {
			continue
		}
		o := t.pend
		ok := false
		switch o.kind {
		case KRecv:
			ok = o.ch == c
		case KSelect:
			// a select with a default arm never waits, so it is no rendezvous partner
			for _, sc := range o.cases {
				if !o.hasDef && !sc.send && sc.ch == c {
					ok = true
				}
			}
		}
		if ok && (best == nil || o.since < best.pend.since) {
			best = t
		}
	}
	return best
}

func (s *Sched) pendingSend(self *Thread, c *chanState) *Thread {
	var best *Thread
	for _, t := range s.threads {
		if t == self || t.done || t.pend == nil || t.completed {
			continue
		}
		o := t.pend
		ok := false
		switch o.kind {
		case KSend:
			ok = o.ch == c
		case KSelect:
			for _, sc := range o.cases {
				if !o.hasDef && sc.send && sc.ch == c {
					ok = true
				}
			}
		}
		if ok && (best == nil || o.since < best.pend.since) {
			best = t
		}
	}
	return best
}

func (s *Sched) sendReady(self *Thread, c *chanState) bool {
	if c.closed {
		return true // will panic, as in Go
	}
	if len(c.buf) < c.capa {
		return true
	}
	// a waiting receiver can only exist, in Go, while the buffer is empty
	return len(c.buf) == 0 && s.pendingRecv(self, c) != nil
}

func (s *Sched) recvReady(self *Thread, c *chanState) bool {
	if len(c.buf) > 0 || c.closed {
		return true
	}
	return s.pendingSend(self, c) != nil
}

func (s *Sched) doSend(self *Thread, c *chanState, v any) {
	if c.closed {
		s.fail("send on closed channel " + c.label)
	}
	if len(c.buf) == 0 {
		if r := s.pendingRecv(self, c); r != nil {
			s.complete(r, c, false, v, true)
			return
		}
	}
	if len(c.buf) < c.capa {
		c.buf = append(c.buf, v)
		return
	}
	panic(EngineError{"doSend on channel that is not ready"})
}

func (s *Sched) doRecv(self *Thread, c *chanState) (any, bool) {
	if len(c.buf) > 0 {
		v := c.buf[0]
		c.buf = c.buf[1:]
		// a sender blocked on the full buffer can now proceed
		if !c.closed {
			if snd := s.pendingSend(self, c); snd != nil {
				c.buf = append(c.buf, s.sendValue(snd, c))
				s.complete(snd, c, true, nil, true)
			}
		}
		return v, true
	}
	if c.closed {
		return nil, false
	}
	if snd := s.pendingSend(self, c); snd != nil {
		v := s.sendValue(snd, c)
		s.complete(snd, c, true, nil, true)
		return v, true
	}
	panic(EngineError{"doRecv on channel that is not ready"})
}

func (s *Sched) sendValue(t *Thread, c *chanState) any {
	o := t.pend
	if o.kind == KSend {
		return o.val
	}
	for _, sc := range o.cases {
		if sc.send && sc.ch == c {
			return sc.val
		}
	}
	panic(EngineError{"sendValue: no send case"})
}

// complete finishes the pending operation of a rendezvous partner.
func (s *Sched) complete(t *Thread, c *chanState, send bool, v any, ok bool) {
	o := t.pend
	t.completed = true
	t.res = opResult{val: v, ok: ok}
	if o.kind == KSelect {
		for i, sc := range o.cases {
			if sc.send == send && sc.ch == c {
				t.res.idx = i
				return
			}
		}
		panic(EngineError{"complete: no matching select case"})
	}
}

// ---- API used by rewritten code and by the harness ----

func Send[T any](c chan T, v T) {
	s := cur
	if s == nil {
		c <- v
		return
	}
	if s.aborting {
		return
	}
	cs := s.chanOf(any(c), cap(c), c == nil)
	lbl := "nil"
	if cs != nil {
		lbl = cs.label
	}
	s.yield(&op{kind: KSend, ch: cs, val: v, label: lbl})
}

func Recv2[T any](c chan T) (T, bool) {
	var zero T
	s := cur
	if s == nil {
		v, ok := <-c
		return v, ok
	}
	if s.aborting {
		return zero, false
	}
	cs := s.chanOf(any(c), cap(c), c == nil)
	lbl := "nil"
	if cs != nil {
		lbl = cs.label
	}
	r := s.yield(&op{kind: KRecv, ch: cs, label: lbl})
	if !r.ok || r.val == nil {
		return zero, r.ok
	}
	return r.val.(T), true
}

func Recv[T any](c chan T) T {
	v, _ := Recv2(c)
	return v
}

func Close[T any](c chan T) {
	s := cur
	if s == nil {
		close(c)
		return
	}
	if s.aborting {
		return
	}
	cs := s.chanOf(any(c), cap(c), c == nil)
	lbl := "nil"
	if cs != nil {
		lbl = cs.label
	}
	s.yield(&op{kind: KClose, ch: cs, label: lbl})
}

// Case is one arm of a rewritten select statement.
type Case struct {
	key   any
	capa  int
	isNil bool
	send  bool
	val   any
}

func CaseRecv[T any](c chan T) Case { return Case{key: any(c), capa: cap(c), isNil: c == nil} }
func CaseSend[T any](c chan T, v T) Case {
	return Case{key: any(c), capa: cap(c), isNil: c == nil, send: true, val: v}
}

// Select performs a select over the cases; idx is -1 for the default arm.
func Select(hasDefault bool, cases ...Case) (idx int, val any, ok bool) {
	s := cur
	if s == nil {
		panic(EngineError{"Select outside execution"})
	}
	if s.aborting {
		if hasDefault {
			return -1, nil, false
		}
		return 0, nil, false
	}
	o := &op{kind: KSelect, hasDef: hasDefault}
	for _, c := range cases {
		cs := s.chanOf(c.key, c.capa, c.isNil)
		o.cases = append(o.cases, selCase{ch: cs, send: c.send, val: c.val})
		if cs != nil {
			if c.send {
				o.label += cs.label + "! "
			} else {
				o.label += cs.label + "? "
			}
		}
	}
	r := s.yield(o)
	return r.idx, r.val, r.ok
}

// SelVal extracts the typed value received by a select arm.
func SelVal[T any](c chan T, v any) T {
	var zero T
	if v == nil {
		return zero
	}
	return v.(T)
}

// ChanInfo reports the shim's view of a channel (for end-state checks).
func ChanInfo[T any](c chan T) (closed bool, queued int) {
	s := cur
	if s == nil || c == nil {
		return false, 0
	}
	cs := s.chans[any(c)]
	if cs == nil {
		return false, 0
	}
	return cs.closed, len(cs.buf)
}

// Len replaces the built-in len in rewritten code: for a channel it reports
// the shim's queue length, for everything else the built-in's answer.
func Len(x any) int {
	v := reflect.ValueOf(x)
	if !v.IsValid() {
		return 0
	}
	if v.Kind() == reflect.Chan {
		if s := cur; s != nil && !v.IsNil() {
			if cs := s.chans[x]; cs != nil {
				return len(cs.buf)
			}
			return 0
		}
	}
	return v.Len()
}

// Cap replaces the built-in cap (the real channel keeps its capacity).
func Cap(x any) int {
	v := reflect.ValueOf(x)
	if !v.IsValid() {
		return 0
	}
	return v.Cap()
}

// MapKeys returns the keys of a map in a fixed (sorted) order: rewritten map
// ranges iterate over it so that executions can be replayed exactly.
func MapKeys[M ~map[K]V, K comparable, V any](m M) []K {
	keys := make([]K, 0, len(m))
	for k := range m {
		keys = append(keys, k)
	}
	sort.Slice(keys, func(i, j int) bool { return lessAny(keys[i], keys[j]) })
	return keys
}

func lessAny(a, b any) bool {
	switch x := a.(type) {
	case string:
		return x < b.(string)
	case int:
		return x < b.(int)
	case uint32:
		return x < b.(uint32)
	case int32:
		return x < b.(int32)
	case uint64:
		return x < b.(uint64)
	case int64:
		return x < b.(int64)
	}
	return fmt.Sprint(a) < fmt.Sprint(b)
}

// RegisterTree walks an object graph (through pointers, structs, interfaces,
// arrays and slices, including unexported fields) and gives every vsched mutex
// and every channel found a stable id: the prefix plus the field path. Called
// by the harness right after a Watcher has been created, so that the names of
// synchronisation objects do not depend on which thread happens to use them
// first (state-key pruning relies on that).
func RegisterTree(root any, prefix string) {
	s := cur
	if s == nil {
		return
	}
	if s.stable == nil {
		s.stable = map[uintptr]string{}
	}
	seen := map[uintptr]bool{}
	muT, rwT := reflect.TypeOf(Mutex{}), reflect.TypeOf(RWMutex{})
	var walk func(v reflect.Value, path string, depth int)
	walk = func(v reflect.Value, path string, depth int) {
		if !v.IsValid() || depth > 8 {
			return
		}
		switch v.Kind() {
		case reflect.Ptr, reflect.Interface:
			if v.IsNil() {
				return
			}
			if v.Kind() == reflect.Ptr {
				if seen[v.Pointer()] {
					return
				}
				seen[v.Pointer()] = true
			}
			walk(v.Elem(), path, depth+1)
		case reflect.Struct:
			if v.Type() == muT || v.Type() == rwT {
				if v.CanAddr() {
					s.stable[v.UnsafeAddr()] = path
				}
				return
			}
			for i := 0; i < v.NumField(); i++ {
				walk(v.Field(i), path+"."+v.Type().Field(i).Name, depth+1)
			}
		case reflect.Chan:
			if !v.IsNil() {
				if _, dup := s.stable[v.Pointer()]; !dup {
					s.stable[v.Pointer()] = path
				}
			}
		case reflect.Array, reflect.Slice:
			if v.Len() <= 16 && (v.Type().Elem().Kind() == reflect.Struct || v.Type().Elem().Kind() == reflect.Ptr) {
				for i := 0; i < v.Len(); i++ {
					walk(v.Index(i), fmt.Sprintf("%s[%d]", path, i), depth+1)
				}
			}
		}
	}
	walk(reflect.ValueOf(root), prefix, 0)
}
