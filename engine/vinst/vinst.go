// Package vinst rewrites the fsnotify sources of the working tree so that every
// synchronisation operation and every inotify syscall goes through
// verif/engine/vsched and verif/engine/vsys. The rewrite is mechanical; any
// construct it does not know makes it fail loudly (engine error), never
// silently.
package vinst

import (
	"fmt"
	"go/ast"
	"go/build"
	"go/parser"
	"go/token"
	"os"
	"path/filepath"
	"sort"
	"strings"
)

type Options struct {
	Tags            []string          // build tags used to select files (GOOS=linux is implied by the host)
	Lockset         bool              // insert lockset assertions (C07)
	PkgPath         string            // import path of the generated package, e.g. verif/gen/fsnotify
	InternalSrc     string            // import path to replace: github.com/fsnotify/fsnotify/internal
	Files           []string          // when non-empty: only these files (base names) instead of build-constraint matching
	DropConstraints bool              // strip //go:build lines (kqueue transplant)
	ImportMap       map[string]string // extra import path rewrites
	ExtraGuards     []Guard
}

// Guard describes shared state and the mutex protecting it, for lockset assertions.
type Guard struct {
	Mention string // source text that identifies an access, e.g. "w.watches"
	Lock    string // expression of the mutex, e.g. "w.mu"
}

type edit struct {
	pos, end int
	text     string
	ins      bool
}

type rewriter struct {
	fset    *token.FileSet
	src     []byte
	base    int
	opt     Options
	errs    []string
	tmpSeq  int
	guards  []Guard
	recv    string            // receiver name of the enclosing method, "" otherwise
	inConst bool              // inside a constant context (len/cap must stay built-in)
	inList  map[ast.Stmt]bool // statements that are direct members of a statement list
	stats   map[string]int
}

func (r *rewriter) off(p token.Pos) int { return r.fset.Position(p).Offset }

func (r *rewriter) orig(n ast.Node) string { return string(r.src[r.off(n.Pos()):r.off(n.End())]) }

func (r *rewriter) errorf(n ast.Node, f string, a ...any) {
	r.errs = append(r.errs, fmt.Sprintf("%s: %s", r.fset.Position(n.Pos()), fmt.Sprintf(f, a...)))
}

func isSel(e ast.Expr, pkg, name string) bool {
	s, ok := e.(*ast.SelectorExpr)
	if !ok {
		return false
	}
	id, ok := s.X.(*ast.Ident)
	return ok && id.Name == pkg && s.Sel.Name == name
}

// render returns the rewritten text of n.
func (r *rewriter) render(n ast.Node) string {
	if n == nil {
		return ""
	}
	return r.renderRange(n, r.off(n.Pos()), r.off(n.End()))
}

func (r *rewriter) renderList(list []ast.Stmt) string {
	if len(list) == 0 {
		return ""
	}
	var b strings.Builder
	for _, s := range list {
		b.WriteString(r.render(s))
		b.WriteString("\n")
	}
	return b.String()
}

func (r *rewriter) renderRange(n ast.Node, from, to int) string {
	var edits []edit
	first := true
	ast.Inspect(n, func(c ast.Node) bool {
		if c == nil {
			return false
		}
		isRoot := first && c == n
		first = false
		if st, ok := c.(ast.Stmt); ok && r.opt.Lockset {
			if a := r.assertFor(st); a != "" {
				edits = append(edits, edit{pos: r.off(st.Pos()), end: r.off(st.Pos()), text: a, ins: true})
			}
		}
		if gd, ok := c.(*ast.GenDecl); ok && gd.Tok == token.CONST {
			return false // constants are left alone
		}
		if at, ok := c.(*ast.ArrayType); ok && at.Len != nil {
			// array lengths are constant expressions: leave them alone
			if txt, ok := r.replace(at.Elt, false); ok {
				edits = append(edits, edit{pos: r.off(at.Elt.Pos()), end: r.off(at.Elt.End()), text: txt})
			}
			return false
		}
		if fd, ok := c.(*ast.FuncDecl); ok {
			r.recv = ""
			if fd.Recv != nil && len(fd.Recv.List) == 1 && len(fd.Recv.List[0].Names) == 1 {
				r.recv = fd.Recv.List[0].Names[0].Name
			}
		}
		if txt, ok := r.replace(c, isRoot); ok {
			edits = append(edits, edit{pos: r.off(c.Pos()), end: r.off(c.End()), text: txt})
			return false
		}
		return true
	})
	sort.SliceStable(edits, func(i, j int) bool {
		if edits[i].pos != edits[j].pos {
			return edits[i].pos < edits[j].pos
		}
		return edits[i].ins && !edits[j].ins
	})
	var b strings.Builder
	at := from
	for _, e := range edits {
		if e.pos < at {
			r.errs = append(r.errs, fmt.Sprintf("overlapping edits at offset %d", e.pos))
			continue
		}
		b.Write(r.src[at:e.pos])
		b.WriteString(e.text)
		at = e.end
	}
	b.Write(r.src[at:to])
	return b.String()
}

// header returns the text of a statement without nested blocks.
func (r *rewriter) header(st ast.Stmt) string {
	switch s := st.(type) {
	case *ast.BlockStmt, *ast.LabeledStmt, *ast.CaseClause, *ast.CommClause, *ast.SelectStmt:
		return ""
	case *ast.IfStmt:
		return string(r.src[r.off(s.Pos()):r.off(s.Body.Pos())])
	case *ast.ForStmt:
		return string(r.src[r.off(s.Pos()):r.off(s.Body.Pos())])
	case *ast.RangeStmt:
		return string(r.src[r.off(s.Pos()):r.off(s.Body.Pos())])
	case *ast.SwitchStmt:
		return string(r.src[r.off(s.Pos()):r.off(s.Body.Pos())])
	case *ast.TypeSwitchStmt:
		return string(r.src[r.off(s.Pos()):r.off(s.Body.Pos())])
	case *ast.DeferStmt, *ast.GoStmt:
		return ""
	}
	// simple statement: cut function literals out (they run later, maybe elsewhere)
	txt := r.orig(st)
	var lits []*ast.FuncLit
	ast.Inspect(st, func(c ast.Node) bool {
		if fl, ok := c.(*ast.FuncLit); ok {
			lits = append(lits, fl)
			return false
		}
		return true
	})
	base := r.off(st.Pos())
	for i := len(lits) - 1; i >= 0; i-- {
		a, b := r.off(lits[i].Pos())-base, r.off(lits[i].End())-base
		txt = txt[:a] + "func(){}" + txt[b:]
	}
	return txt
}

func (r *rewriter) assertFor(st ast.Stmt) string {
	if !r.inList[st] {
		return ""
	}
	h := r.header(st)
	if h == "" {
		return ""
	}
	var out string
	for _, g := range r.guards {
		m := strings.ReplaceAll(g.Mention, "$R", r.recv)
		if r.recv == "" && strings.Contains(g.Mention, "$R") {
			continue
		}
		if containsToken(h, m) {
			lock := strings.ReplaceAll(g.Lock, "$R", r.recv)
			pos := r.fset.Position(st.Pos())
			out += fmt.Sprintf("vsched.AssertHeld(%s.HeldByCurrent(), %q, %q); ", lock,
				fmt.Sprintf("%s:%d", filepath.Base(pos.Filename), pos.Line), m)
			r.stats["lockset-assert"]++
		}
	}
	return out
}

func containsToken(h, m string) bool {
	i := 0
	for {
		j := strings.Index(h[i:], m)
		if j < 0 {
			return false
		}
		j += i
		before := j == 0 || !isIdent(h[j-1]) && h[j-1] != '.'
		after := j+len(m) >= len(h) || !isIdent(h[j+len(m)])
		if before && after {
			return true
		}
		i = j + 1
	}
}

func isIdent(c byte) bool {
	return c == '_' || c >= 'a' && c <= 'z' || c >= 'A' && c <= 'Z' || c >= '0' && c <= '9'
}

func (r *rewriter) tmp() string {
	r.tmpSeq++
	return fmt.Sprintf("_v%d", r.tmpSeq)
}

// replace returns the replacement text for c, if c is a construct to rewrite.
// For a root node that is replaced we still must not recurse forever: the
// sub-renders below always work on strict children.
func (r *rewriter) replace(c ast.Node, isRoot bool) (string, bool) {
	switch x := c.(type) {
	case *ast.SelectorExpr:
		if id, ok := x.X.(*ast.Ident); ok {
			switch id.Name {
			case "sync":
				switch x.Sel.Name {
				case "Mutex", "RWMutex", "Once", "WaitGroup":
					r.stats["sync."+x.Sel.Name]++
					return "vsched." + x.Sel.Name, true
				case "Locker":
					return "", false
				default:
					r.errorf(x, "unsupported sync.%s", x.Sel.Name)
				}
			case "unix":
				switch x.Sel.Name {
				case "InotifyInit1", "InotifyAddWatch", "InotifyRmWatch":
					r.stats["unix."+x.Sel.Name]++
					return "vsys." + x.Sel.Name, true
				case "InotifyInit":
					r.errorf(x, "unsupported unix.InotifyInit")
				}
			case "os":
				if x.Sel.Name == "NewFile" {
					r.stats["os.NewFile"]++
					return "vsys.NewFile", true
				}
				switch x.Sel.Name {
				case "Lstat", "ReadDir", "Readlink":
					// same call, result folded into the calling thread's history (state-key pruning)
					r.stats["os."+x.Sel.Name]++
					return "vsched.Os" + x.Sel.Name, true
				}
			case "time":
				switch x.Sel.Name {
				case "Sleep":
					return "vsched.Sleep", true
				case "Now", "Since", "Until":
					// the execution's own clock: stands still unless the history says otherwise
					r.stats["time."+x.Sel.Name]++
					return "vsched." + x.Sel.Name, true
				case "After", "NewTimer", "AfterFunc", "Timer":
					// no clock: a timer may fire at any point after it was armed (vsched/timer.go)
					r.stats["time."+x.Sel.Name]++
					return "vsched." + x.Sel.Name, true
				case "Tick", "NewTicker", "Ticker":
					r.errorf(x, "unsupported time.%s (tickers are not modelled)", x.Sel.Name)
				}
			case "atomic":
				// atomics are single indivisible steps; left as they are
			}
		}
	case *ast.GoStmt:
		r.stats["go"]++
		call := x.Call
		var pre, args []string
		for _, a := range call.Args {
			t := r.tmp()
			pre = append(pre, fmt.Sprintf("%s := %s", t, r.render(a)))
			args = append(args, t)
		}
		ell := ""
		if call.Ellipsis.IsValid() {
			ell = "..."
		}
		fun := r.render(call.Fun)
		body := fmt.Sprintf("vsched.Go(func() { %s(%s%s) })", fun, strings.Join(args, ", "), ell)
		if len(pre) == 0 {
			return body, true
		}
		return "{ " + strings.Join(pre, "; ") + "; " + body + " }", true
	case *ast.SendStmt:
		r.stats["send"]++
		return fmt.Sprintf("vsched.Send(%s, %s)", r.render(x.Chan), r.render(x.Value)), true
	case *ast.AssignStmt:
		if len(x.Lhs) == 2 && len(x.Rhs) == 1 {
			if u, ok := x.Rhs[0].(*ast.UnaryExpr); ok && u.Op == token.ARROW {
				r.stats["recv2"]++
				return fmt.Sprintf("%s, %s %s vsched.Recv2(%s)", r.render(x.Lhs[0]), r.render(x.Lhs[1]), x.Tok, r.render(u.X)), true
			}
		}
	case *ast.ValueSpec:
		if len(x.Names) == 2 && len(x.Values) == 1 {
			if u, ok := x.Values[0].(*ast.UnaryExpr); ok && u.Op == token.ARROW {
				r.errorf(x, "unsupported: var v, ok = <-ch")
			}
		}
	case *ast.UnaryExpr:
		if x.Op == token.ARROW {
			r.stats["recv"]++
			return fmt.Sprintf("vsched.Recv(%s)", r.render(x.X)), true
		}
	case *ast.RangeStmt:
		// ranging over a channel cannot be told apart syntactically from
		// other ranges; the post-check (typed) catches it.
	case *ast.CallExpr:
		if id, ok := x.Fun.(*ast.Ident); ok && id.Name == "close" && len(x.Args) == 1 {
			r.stats["close"]++
			return fmt.Sprintf("vsched.Close(%s)", r.render(x.Args[0])), true
		}
		// len/cap of a channel must ask the shim (values never travel through
		// the real channel); the argument's type is not known syntactically, so
		// every len/cap goes through a helper that falls back to the built-in
		if id, ok := x.Fun.(*ast.Ident); ok && (id.Name == "len" || id.Name == "cap") && len(x.Args) == 1 && !r.inConst {
			r.stats[id.Name]++
			return fmt.Sprintf("vsched.%s(%s)", map[string]string{"len": "Len", "cap": "Cap"}[id.Name], r.render(x.Args[0])), true
		}
		if sel, ok := x.Fun.(*ast.SelectorExpr); ok {
			recvTxt := r.orig(sel.X)
			if strings.HasSuffix(recvTxt, "inotifyFile") {
				switch sel.Sel.Name {
				case "Read":
					r.stats["file.Read"]++
					var args []string
					for _, a := range x.Args {
						args = append(args, r.render(a))
					}
					return fmt.Sprintf("vsys.Read(%s, %s)", r.render(sel.X), strings.Join(args, ", ")), true
				case "Close":
					r.stats["file.Close"]++
					return fmt.Sprintf("vsys.CloseFile(%s)", r.render(sel.X)), true
				default:
					r.errorf(x, "unsupported method %s on the inotify file", sel.Sel.Name)
				}
			}
		}
	case *ast.SelectStmt:
		r.stats["select"]++
		return r.selectStmt(x), true
	}
	return "", false
}

func (r *rewriter) selectStmt(x *ast.SelectStmt) string {
	vi, vv, vok := r.tmp(), r.tmp(), r.tmp()
	var cases []string
	var arms []string
	hasDef := false
	idx := 0
	for _, cc := range x.Body.List {
		c := cc.(*ast.CommClause)
		body := r.renderList(c.Body)
		if c.Comm == nil {
			hasDef = true
			arms = append(arms, "default:\n"+body)
			continue
		}
		prelude := ""
		switch s := c.Comm.(type) {
		case *ast.SendStmt:
			cases = append(cases, fmt.Sprintf("vsched.CaseSend(%s, %s)", r.render(s.Chan), r.render(s.Value)))
		case *ast.ExprStmt:
			u, ok := s.X.(*ast.UnaryExpr)
			if !ok || u.Op != token.ARROW {
				r.errorf(s, "unsupported select arm")
				continue
			}
			cases = append(cases, fmt.Sprintf("vsched.CaseRecv(%s)", r.render(u.X)))
		case *ast.AssignStmt:
			u, ok := s.Rhs[0].(*ast.UnaryExpr)
			if !ok || u.Op != token.ARROW || len(s.Rhs) != 1 {
				r.errorf(s, "unsupported select arm")
				continue
			}
			ch := r.render(u.X)
			cases = append(cases, fmt.Sprintf("vsched.CaseRecv(%s)", ch))
			prelude = fmt.Sprintf("%s %s vsched.SelVal(%s, %s)\n", r.render(s.Lhs[0]), s.Tok, ch, vv)
			if id, ok := s.Lhs[0].(*ast.Ident); ok && s.Tok == token.DEFINE && id.Name != "_" {
				prelude += fmt.Sprintf("_ = %s\n", id.Name)
			}
			if len(s.Lhs) == 2 {
				prelude += fmt.Sprintf("%s %s %s\n", r.render(s.Lhs[1]), s.Tok, vok)
				if id, ok := s.Lhs[1].(*ast.Ident); ok && s.Tok == token.DEFINE && id.Name != "_" {
					prelude += fmt.Sprintf("_ = %s\n", id.Name)
				}
			}
		default:
			r.errorf(c.Comm, "unsupported select arm")
			continue
		}
		arms = append(arms, fmt.Sprintf("case %d:\n%s%s", idx, prelude, body))
		idx++
	}
	if !hasDef {
		arms = append(arms, "default:\npanic(\"vsched: bad select index\")\n")
	}
	return fmt.Sprintf("{\n%s, %s, %s := vsched.Select(%t, %s)\n_, _ = %s, %s\nswitch %s {\n%s}\n}",
		vi, vv, vok, hasDef, strings.Join(cases, ", "), vv, vok, vi, strings.Join(arms, ""))
}

// DefaultGuards is the lockset specification of the inotify back end: which
// mutex guards which shared state.
var DefaultGuards = []Guard{
	{Mention: "$R.watches", Lock: "$R.mu"},
	{Mention: "$R.cookies", Lock: "$R.cookiesMu"},
	{Mention: "$R.cookieIndex", Lock: "$R.cookiesMu"},
}

// Result reports what was rewritten.
type Result struct {
	Files []string
	Stats map[string]int
}

// Generate instruments the package in srcDir into outDir.
func Generate(srcDir, outDir string, opt Options) (*Result, error) {
	if err := os.RemoveAll(outDir); err != nil {
		return nil, err
	}
	if err := os.MkdirAll(outDir, 0o755); err != nil {
		return nil, err
	}
	res := &Result{Stats: map[string]int{}}
	ctx := build.Default
	ctx.BuildTags = opt.Tags
	ctx.CgoEnabled = false
	ents, err := os.ReadDir(srcDir)
	if err != nil {
		return nil, err
	}
	want := map[string]bool{}
	for _, f := range opt.Files {
		want[f] = true
	}
	var errs []string
	for _, e := range ents {
		name := e.Name()
		if e.IsDir() || !strings.HasSuffix(name, ".go") || strings.HasSuffix(name, "_test.go") {
			continue
		}
		if len(want) > 0 {
			if !want[name] {
				continue
			}
		} else {
			ok, err := ctx.MatchFile(srcDir, name)
			if err != nil {
				return nil, err
			}
			if !ok {
				continue
			}
		}
		src, err := os.ReadFile(filepath.Join(srcDir, name))
		if err != nil {
			return nil, err
		}
		out, ferrs := rewriteFile(name, src, opt, res.Stats)
		errs = append(errs, ferrs...)
		if err := os.WriteFile(filepath.Join(outDir, name), []byte(out), 0o644); err != nil {
			return nil, err
		}
		res.Files = append(res.Files, name)
	}
	if len(errs) > 0 {
		return res, fmt.Errorf("vinst: cannot instrument:\n  %s", strings.Join(errs, "\n  "))
	}
	return res, nil
}

func rewriteFile(name string, src []byte, opt Options, stats map[string]int) (string, []string) {
	fset := token.NewFileSet()
	f, err := parser.ParseFile(fset, name, src, parser.ParseComments)
	if err != nil {
		return "", []string{err.Error()}
	}
	r := &rewriter{fset: fset, src: src, opt: opt, stats: stats}
	if opt.Lockset {
		r.guards = append(append([]Guard{}, DefaultGuards...), opt.ExtraGuards...)
	}
	r.inList = map[ast.Stmt]bool{}
	ast.Inspect(f, func(c ast.Node) bool {
		var l []ast.Stmt
		switch x := c.(type) {
		case *ast.BlockStmt:
			l = x.List
		case *ast.CaseClause:
			l = x.Body
		case *ast.CommClause:
			l = x.Body
		}
		for _, st := range l {
			r.inList[st] = true
		}
		return true
	})
	var b strings.Builder
	// everything up to and including the package clause verbatim
	pkgEnd := r.off(f.Name.End())
	head := string(src[:pkgEnd])
	if opt.DropConstraints {
		var keep []string
		for _, l := range strings.Split(head, "\n") {
			if strings.HasPrefix(l, "//go:build") || strings.HasPrefix(l, "// +build") {
				continue
			}
			keep = append(keep, l)
		}
		head = strings.Join(keep, "\n")
	}
	b.WriteString(head)
	b.WriteString("\n\nimport vsched \"verif/engine/vsched\"\nimport vsys \"verif/engine/vsys\"\n")
	imported := map[string]bool{}
	at := pkgEnd
	for _, d := range f.Decls {
		b.Write(src[at:r.off(d.Pos())])
		if gd, ok := d.(*ast.GenDecl); ok && gd.Tok == token.IMPORT {
			txt := r.orig(gd)
			for _, sp := range gd.Specs {
				is := sp.(*ast.ImportSpec)
				p := strings.Trim(is.Path.Value, "\"")
				base := p[strings.LastIndex(p, "/")+1:]
				if is.Name != nil {
					base = is.Name.Name
				}
				imported[base] = true
				if opt.InternalSrc != "" && p == opt.InternalSrc {
					txt = strings.Replace(txt, is.Path.Value, fmt.Sprintf("%q", opt.PkgPath+"/internal"), 1)
				}
				if np, ok := opt.ImportMap[p]; ok {
					txt = strings.Replace(txt, is.Path.Value, fmt.Sprintf("%q", np), 1)
				}
			}
			b.WriteString(txt)
		} else {
			b.WriteString(r.render(d))
		}
		at = r.off(d.End())
	}
	b.Write(src[at:])
	b.WriteString("\nvar _, _ = vsched.Marker, vsys.Marker\n")
	keepAlive := map[string]string{"sync": "var _ sync.Locker", "time": "var _ time.Duration", "os": "var _ *os.File"}
	for _, k := range []string{"sync", "time", "os"} {
		if imported[k] {
			b.WriteString(keepAlive[k] + "\n")
		}
	}
	return b.String(), r.errs
}

// CopyPlain copies the non-test Go files of a directory, applying only the
// build-constraint filter (used for fsnotify/internal).
func CopyPlain(srcDir, outDir string, tags []string) error {
	if err := os.MkdirAll(outDir, 0o755); err != nil {
		return err
	}
	ctx := build.Default
	ctx.BuildTags = tags
	ents, err := os.ReadDir(srcDir)
	if err != nil {
		return err
	}
	for _, e := range ents {
		name := e.Name()
		if e.IsDir() || !strings.HasSuffix(name, ".go") || strings.HasSuffix(name, "_test.go") {
			continue
		}
		ok, err := ctx.MatchFile(srcDir, name)
		if err != nil || !ok {
			continue
		}
		b, err := os.ReadFile(filepath.Join(srcDir, name))
		if err != nil {
			return err
		}
		if err := os.WriteFile(filepath.Join(outDir, name), b, 0o644); err != nil {
			return err
		}
	}
	return nil
}
