// Package vsys holds the syscall seams of the inotify back end: the real
// syscall is always made, but it is announced to the scheduler first (it is a
// scheduling point), logged, and can be answered from a fault script instead.
package vsys

import (
	"errors"
	"fmt"
	"os"
	"sort"
	"strings"
	"sync"
	"syscall"
	"unsafe"

	"verif/engine/vsched"

	"golang.org/x/sys/unix"
)

var Marker = 0

type Call struct {
	Kind string // init, add, rm, read, close
	Fd   int
	Path string
	Mask uint32
	Wd   int
	Err  string
	N    int
	Step int
	Thr  int
}

type fileInfo struct {
	harness bool // owned by the harness (not counted as a leak of the code under test)
	idx     int
	fd      int
	closed  bool
	pipe    bool
}

// ReadFault replaces the answer of the n-th read (0-based, counted per execution).
type ReadFault struct {
	Nth   int
	Err   error // returned with n=0 when non-nil
	Short int   // when >0: return only this many bytes (must be < 16), consuming nothing else
	EOF   bool  // return 0, nil
}

type State struct {
	kseq       uint64 // order-sensitive hash of the operations that changed the kernel's state
	files      map[*os.File]*fileInfo
	Fds        []int // every inotify fd created in this execution
	Calls      []Call
	Reads      [][]byte // raw bytes of every successful read, in order
	ReadFd     []int
	InitFail   map[int]error // n-th InotifyInit1 call (0-based) fails with this errno
	RmFail     map[int]error
	ReadFaults []ReadFault
	nInit      int
	nRead      int
	nRm        int
	cookieRank map[uint32]int
	SyncClose  bool                      // perform closes synchronously (descriptor numbers become reusable at once, as in a real process)
	OnRead     func(fd int, data []byte) // called right after a successful real read
	OnAdd      func(fd int, path string, mask uint32, wd int, err error)
	OnRm       func(fd int, wd uint32, err error)
}

func st() *State {
	s := vsched.Cur()
	if s == nil {
		return nil
	}
	v, ok := s.Locals["vsys"]
	if !ok {
		ns := &State{files: map[*os.File]*fileInfo{}}
		s.Locals["vsys"] = ns
		return ns
	}
	return v.(*State)
}

// Get returns the seam state of the running execution.
func Get() *State { return st() }

func errStr(e error) string {
	if e == nil {
		return ""
	}
	return e.Error()
}

func (s *State) log(c Call) {
	if sc := vsched.Cur(); sc != nil {
		c.Step = sc.Steps
	}
	s.Calls = append(s.Calls, c)
	if c.Err == "" && (c.Kind == "add" || c.Kind == "rm" || c.Kind == "close" || c.Kind == "init") {
		s.NoteKernelOp(fmt.Sprint(c.Kind, c.Path, c.Mask, c.Wd))
	}
	// what the calling thread learnt (descriptor numbers are left out: they depend on closes still in flight)
	vsched.Observe(c.Kind, c.Path, c.Mask, c.Wd, c.Err, c.N)
}

// NoteKernelOp folds an operation that changes what the kernel holds (watch set, queued notifications)
// into an order-sensitive hash: the kernel's state is a function of the order of these operations, and the
// state key has no other view of the queue's content or of watches the library's tables do not show.
func (s *State) NoteKernelOp(desc string) {
	h := s.kseq
	if h == 0 {
		h = 1469598103934665603
	}
	for i := 0; i < len(desc); i++ {
		h ^= uint64(desc[i])
		h *= 1099511628211
	}
	h ^= 0xff
	h *= 1099511628211
	s.kseq = h
}

// KeyPart renders the seam's part of the global state key.
func (s *State) KeyPart() string {
	var b strings.Builder
	fmt.Fprintf(&b, "k%x;", s.kseq)
	for i, fd := range s.Fds {
		n := -2
		if !s.fdClosed(fd) {
			n = Fionread(fd)
		}
		fmt.Fprintf(&b, "q%d=%d;", i, n)
	}
	type kv struct {
		idx    int
		closed bool
	}
	var fs []kv
	for _, fi := range s.files {
		fs = append(fs, kv{fi.idx, fi.closed})
	}
	sort.Slice(fs, func(i, j int) bool { return fs[i].idx < fs[j].idx })
	fmt.Fprintf(&b, "%v n=%d/%d/%d", fs, s.nInit, s.nRead, s.nRm)
	return b.String()
}

func InotifyInit1(flags int) (int, error) {
	s := st()
	if s == nil {
		return unix.InotifyInit1(flags)
	}
	vsched.Step("inotify_init1")
	n := s.nInit
	s.nInit++
	if e, ok := s.InitFail[n]; ok {
		s.log(Call{Kind: "init", Fd: -1, Err: errStr(e)})
		return -1, e
	}
	fd, err := unix.InotifyInit1(flags)
	if fd >= 0 {
		s.Fds = append(s.Fds, fd)
	}
	s.log(Call{Kind: "init", Fd: fd, Err: errStr(err)})
	return fd, err
}

func InotifyAddWatch(fd int, path string, mask uint32) (int, error) {
	s := st()
	if s == nil {
		return unix.InotifyAddWatch(fd, path, mask)
	}
	vsched.Step(fmt.Sprintf("inotify_add_watch %q %#x", path, mask))
	if s.fdClosed(fd) { // the real close is deferred (see asyncClose); answer as the kernel would
		s.log(Call{Kind: "add", Fd: fd, Path: path, Mask: mask, Wd: -1, Err: "EBADF"})
		return -1, unix.EBADF
	}
	wd, err := unix.InotifyAddWatch(fd, path, mask)
	s.log(Call{Kind: "add", Fd: fd, Path: path, Mask: mask, Wd: wd, Err: errStr(err)})
	if s.OnAdd != nil {
		s.OnAdd(fd, path, mask, wd, err)
	}
	return wd, err
}

func InotifyRmWatch(fd int, wd uint32) (int, error) {
	s := st()
	if s == nil {
		return unix.InotifyRmWatch(fd, wd)
	}
	vsched.Step(fmt.Sprintf("inotify_rm_watch %d", wd))
	n := s.nRm
	s.nRm++
	if s.fdClosed(fd) {
		s.log(Call{Kind: "rm", Fd: fd, Wd: int(wd), Err: "EBADF"})
		return -1, unix.EBADF
	}
	if e, ok := s.RmFail[n]; ok {
		s.log(Call{Kind: "rm", Fd: fd, Wd: int(wd), Err: errStr(e)})
		return -1, e
	}
	r, err := unix.InotifyRmWatch(fd, wd)
	s.log(Call{Kind: "rm", Fd: fd, Wd: int(wd), Err: errStr(err)})
	if s.OnRm != nil {
		s.OnRm(fd, wd, err)
	}
	return r, err
}

func NewFile(fd uintptr, name string) *os.File {
	f := os.NewFile(fd, name)
	if s := st(); s != nil && f != nil {
		// the number may be a reused one whose earlier (deferred) close has completed
		for _, fi := range s.files {
			if fi.fd == int(fd) && fi.closed {
				fi.fd = -1
			}
		}
		s.files[f] = &fileInfo{fd: int(fd), idx: len(s.files)}
	}
	return f
}

// RegisterPipe announces a harness-made pipe read end that will be
// substituted for the inotify file.
func RegisterPipe(f *os.File, fd int) {
	if s := st(); s != nil {
		s.files[f] = &fileInfo{fd: fd, pipe: true, idx: len(s.files)}
	}
}

func Fionread(fd int) int {
	var n int32
	_, _, e := syscall.Syscall(syscall.SYS_IOCTL, uintptr(fd), uintptr(unix.TIOCINQ), uintptr(unsafe.Pointer(&n)))
	if e != 0 {
		return -1
	}
	return int(n)
}

// Read is what inotifyFile.Read is rewritten to. It is enabled only when the
// real read would not block: bytes are queued, the file was closed, or the
// fault script answers this read.
func Read(f *os.File, b []byte) (int, error) {
	s := st()
	if s == nil {
		return f.Read(b)
	}
	fi := s.files[f]
	if fi == nil {
		return f.Read(b) // not an inotify file of the code under test (e.g. a regular file it opened itself)
	}
	faulted := func() *ReadFault {
		for i := range s.ReadFaults {
			if s.ReadFaults[i].Nth == s.nRead {
				return &s.ReadFaults[i]
			}
		}
		return nil
	}
	vsched.Gate(fmt.Sprintf("read ino#%d", fi.idx), func() bool {
		if fi.closed || faulted() != nil {
			return true
		}
		n := Fionread(fi.fd)
		return n != 0 // >0: data; -1: fd gone, the real read will say so
	})
	if sc := vsched.Cur(); sc == nil {
		return 0, os.ErrClosed
	}
	if !fi.closed {
		if ft := faulted(); ft != nil {
			s.nRead++
			switch {
			case ft.Err != nil:
				s.log(Call{Kind: "read", Fd: fi.fd, Err: ft.Err.Error()})
				return 0, ft.Err
			case ft.EOF:
				s.log(Call{Kind: "read", Fd: fi.fd, N: 0, Err: "injected-eof"})
				return 0, nil
			default:
				s.log(Call{Kind: "read", Fd: fi.fd, N: ft.Short, Err: "injected-short"})
				for i := 0; i < ft.Short && i < len(b); i++ {
					b[i] = 0
				}
				return ft.Short, nil
			}
		}
	}
	s.nRead++
	if fi.closed {
		err := &os.PathError{Op: "read", Path: f.Name(), Err: os.ErrClosed}
		s.log(Call{Kind: "read", Fd: fi.fd, Err: err.Error()})
		return 0, err
	}
	n, err := f.Read(b)
	s.log(Call{Kind: "read", Fd: fi.fd, N: n, Err: errStr(err)})
	if err == nil && n > 0 {
		cp := make([]byte, n)
		copy(cp, b[:n])
		s.observeRecords(cp)
		s.Reads = append(s.Reads, cp)
		s.ReadFd = append(s.ReadFd, fi.fd)
		if s.OnRead != nil {
			s.OnRead(fi.fd, cp)
		}
	}
	return n, err
}

// CloseFile is what inotifyFile.Close is rewritten to.
func CloseFile(f *os.File) error {
	s := st()
	if s == nil {
		return f.Close()
	}
	fi := s.files[f]
	if fi == nil {
		return f.Close()
	}
	vsched.Step(fmt.Sprintf("close ino#%d", fi.idx))
	if fi.closed {
		err := &os.PathError{Op: "close", Path: f.Name(), Err: os.ErrClosed}
		s.log(Call{Kind: "close", Fd: fi.fd, Err: err.Error()})
		return err
	}
	fi.closed = true
	if s.SyncClose {
		err := f.Close()
		fi.fd = -1 // the number is free for reuse from here on
		s.log(Call{Kind: "close", Fd: fi.fd, Err: errStr(err)})
		return err
	}
	asyncClose(f)
	s.log(Call{Kind: "close", Fd: fi.fd})
	return nil
}

func (s *State) fdClosed(fd int) bool {
	for _, fi := range s.files {
		if fi.fd == fd && fi.closed {
			return true
		}
	}
	return false
}

// Closing an inotify instance that ever had a mark costs ~10 ms in the kernel
// (SRCU grace period). The seam therefore records the close (later reads,
// add_watch and rm_watch on that file are answered as the kernel would answer
// them for a closed descriptor) and performs the real close on a background
// OS thread. The descriptor number stays allocated until then, so it cannot
// be reused by anything else in between.
var (
	closeCh   chan *os.File
	closeOnce sync.Once
	closeWG   sync.WaitGroup
	// MaxInflightCloses bounds the number of inotify instances waiting to be closed.
	MaxInflightCloses = 4
)

func asyncClose(f *os.File) {
	closeOnce.Do(func() {
		closeCh = make(chan *os.File, MaxInflightCloses)
		for i := 0; i < MaxInflightCloses; i++ {
			go func() {
				for f := range closeCh {
					f.Close()
					closeWG.Done()
				}
			}()
		}
	})
	closeWG.Add(1)
	closeCh <- f
}

// DrainCloses waits until every deferred close has been performed.
func DrainCloses() { closeWG.Wait() }

// Disown marks a file as the harness's responsibility (the original inotify
// file after a pipe was substituted for it).
func Disown(f *os.File) {
	if s := st(); s != nil {
		if fi := s.files[f]; fi != nil {
			fi.harness = true
		}
	}
}

// observeRecords folds what a read returned into the reading thread's history,
// with cookies replaced by their rank of first appearance (only equality matters).
func (s *State) observeRecords(b []byte) {
	if s.cookieRank == nil {
		s.cookieRank = map[uint32]int{}
	}
	le := func(o int) uint32 { return uint32(b[o]) | uint32(b[o+1])<<8 | uint32(b[o+2])<<16 | uint32(b[o+3])<<24 }
	for off := 0; off+16 <= len(b); {
		ck := le(off + 8)
		r := 0
		if ck != 0 {
			var ok bool
			if r, ok = s.cookieRank[ck]; !ok {
				r = len(s.cookieRank) + 1
				s.cookieRank[ck] = r
			}
		}
		n := int(le(off + 12))
		end := off + 16 + n
		if end > len(b) {
			end = len(b)
		}
		vsched.Observe(le(off), le(off+4), r, string(b[off+16:end]))
		off = end
	}
}

// OpenFds lists registered inotify/pipe files the code under test has not closed.
func (s *State) OpenFds() []int {
	var out []int
	for _, fi := range s.files {
		if !fi.closed && !fi.harness {
			out = append(out, fi.fd)
		}
	}
	return out
}

// Cleanup closes whatever the execution left open (called by the harness
// after the end state has been inspected).
func (s *State) Cleanup() {
	for f, fi := range s.files {
		if !fi.closed {
			fi.closed = true
			asyncClose(f)
		}
	}
}

var ErrInjected = errors.New("injected read error")
