#!/bin/bash
# Builds the framework from files on disk only and warms the Go build cache.
set -e
export GOFLAGS=-mod=mod GOPROXY=off GOSUMDB=off GOTOOLCHAIN=local
cd "$(dirname "$0")"
mkdir -p .build/bin evidence replays
cp -f /repo/go.sum go.sum
# best effort (root only): closing an inotify instance costs ~10 ms, so the
# harness closes them on background threads and needs head-room here
[ "$(cat /proc/sys/fs/inotify/max_user_instances 2>/dev/null || echo 0)" -lt 4096 ] && echo 8192 > /proc/sys/fs/inotify/max_user_instances 2>/dev/null || true
go build -o .build/bin/vgen ./cmd/vgen
.build/bin/vgen -repo /repo -out "$PWD/gen/fsnotify" -kq "$PWD/gen/kq" >/dev/null
(cd vtypes && go build -o ../.build/bin/vtypes .)
.build/bin/vtypes "$PWD" ./gen/fsnotify ./gen/kq -tags verif >/dev/null
go build -o .build/bin/vxgen ./cmd/vxgen
.build/bin/vxgen -repo /repo -out "$PWD/gen" >/dev/null
go build -tags verif -o .build/bin/vharn.setup ./cmd/vharn
go build -tags verif -o .build/bin/vpure.setup ./cmd/vpure
# warm the cache for the race-enabled companion build of C07 (supplementary: failure is tolerated)
go build -race -o .build/bin/vrace.setup ./cmd/vrace 2>/dev/null || true
rm -f .build/bin/vrace.setup
# engine self-test: known-answer programs through the same scheduler, shims and explorer as the checks
VERIF_DIR="$PWD" .build/bin/vharn.setup selftest > .build/selftest.log 2>&1 || { cat .build/selftest.log; rm -f .build/bin/vharn.setup .build/bin/vpure.setup; exit 1; }
rm -f .build/bin/vharn.setup .build/bin/vpure.setup
echo setup ok
