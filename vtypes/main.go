// vtypes is the typed second pass of the instrumentation: it loads an already
// (syntactically) instrumented package with full type information and makes
// the remaining sources of scheduler-invisible nondeterminism explicit:
//
//   - `for k, v := range m` over a map is rewritten to iterate over the keys in
//     sorted order (Go randomises map iteration; the explorer must be able to
//     replay an execution exactly). Entries deleted during the loop are
//     skipped, entries added are not visited - both allowed by the spec.
//   - `for v := range ch` over a channel becomes a loop around vsched.Recv2.
//
// It lives in its own module because golang.org/x/tools would otherwise raise
// the golang.org/x/sys version the code under test is compiled against.
package main

import (
	"fmt"
	"go/ast"
	"go/token"
	"go/types"
	"os"
	"sort"
	"strings"

	"golang.org/x/tools/go/packages"
)

type edit struct {
	pos, end int
	text     string
}

func main() {
	if len(os.Args) < 3 {
		fmt.Fprintln(os.Stderr, "usage: vtypes <module dir> <package pattern>... [-tags x]")
		os.Exit(2)
	}
	dir := os.Args[1]
	var pats []string
	tags := ""
	for i := 2; i < len(os.Args); i++ {
		if os.Args[i] == "-tags" && i+1 < len(os.Args) {
			tags = os.Args[i+1]
			i++
			continue
		}
		pats = append(pats, os.Args[i])
	}
	cfg := &packages.Config{Dir: dir, Mode: packages.NeedName | packages.NeedFiles | packages.NeedSyntax | packages.NeedTypes | packages.NeedTypesInfo | packages.NeedCompiledGoFiles}
	if tags != "" {
		cfg.BuildFlags = []string{"-tags=" + tags}
	}
	pkgs, err := packages.Load(cfg, pats...)
	if err != nil {
		fmt.Fprintln(os.Stderr, "vtypes:", err)
		os.Exit(2)
	}
	nmaps, nchans, nfiles, ntouch := 0, 0, 0, 0
	for _, p := range pkgs {
		if len(p.Errors) > 0 {
			for _, e := range p.Errors {
				fmt.Fprintln(os.Stderr, "vtypes:", e)
			}
			os.Exit(2)
		}
		for i, f := range p.Syntax {
			name := p.CompiledGoFiles[i]
			src, err := os.ReadFile(name)
			if err != nil {
				fmt.Fprintln(os.Stderr, "vtypes:", err)
				os.Exit(2)
			}
			off := func(pos token.Pos) int { return p.Fset.Position(pos).Offset }
			var edits []edit
			seq := 0
			// ---- dynamic lockset: a Touch in front of every statement (of a statement list) whose own
			// part (not its nested blocks, not function literals) operates on a map ----
			isMap := func(e ast.Expr) bool {
				t := p.TypesInfo.TypeOf(e)
				if t == nil {
					return false
				}
				_, ok := t.Underlying().(*types.Map)
				return ok
			}
			txt := func(n ast.Node) string { return string(src[off(n.Pos()):off(n.End())]) }
			var mapOps func(n ast.Node, acc map[string]bool)
			mapOps = func(n ast.Node, acc map[string]bool) {
				if n == nil {
					return
				}
				ast.Inspect(n, func(c ast.Node) bool {
					switch x := c.(type) {
					case *ast.FuncLit, *ast.BlockStmt:
						return false
					case *ast.IndexExpr:
						if isMap(x.X) {
							acc[txt(x.X)] = true
						}
					case *ast.CallExpr:
						if id, ok := x.Fun.(*ast.Ident); ok && (id.Name == "delete" || id.Name == "len") && len(x.Args) >= 1 && isMap(x.Args[0]) {
							acc[txt(x.Args[0])] = true
						}
						if sel, ok := x.Fun.(*ast.SelectorExpr); ok && sel.Sel.Name == "Len" && len(x.Args) == 1 && isMap(x.Args[0]) {
							if id, ok := sel.X.(*ast.Ident); ok && id.Name == "vsched" {
								acc[txt(x.Args[0])] = true
							}
						}
					}
					return true
				})
			}
			header := func(st ast.Stmt) map[string]bool {
				acc := map[string]bool{}
				switch x := st.(type) {
				case *ast.IfStmt:
					mapOps(x.Init, acc)
					mapOps(x.Cond, acc)
				case *ast.ForStmt:
					mapOps(x.Init, acc)
					mapOps(x.Cond, acc)
				case *ast.RangeStmt:
					if isMap(x.X) {
						acc[txt(x.X)] = true
					}
					mapOps(x.X, acc)
				case *ast.SwitchStmt:
					mapOps(x.Init, acc)
					mapOps(x.Tag, acc)
				case *ast.TypeSwitchStmt, *ast.SelectStmt, *ast.BlockStmt, *ast.LabeledStmt, *ast.GoStmt, *ast.DeferStmt:
				case *ast.ReturnStmt:
					for _, r := range x.Results {
						mapOps(r, acc)
					}
				default:
					mapOps(st, acc)
				}
				return acc
			}
			ast.Inspect(f, func(n ast.Node) bool {
				var list []ast.Stmt
				switch x := n.(type) {
				case *ast.BlockStmt:
					list = x.List
				case *ast.CaseClause:
					list = x.Body
				case *ast.CommClause:
					list = x.Body
				}
				for _, st := range list {
					acc := header(st)
					if len(acc) == 0 {
						continue
					}
					var keys []string
					for k := range acc {
						keys = append(keys, k)
					}
					sort.Strings(keys)
					pos := p.Fset.Position(st.Pos())
					var b strings.Builder
					for _, k := range keys {
						fmt.Fprintf(&b, "vsched.Touch(%s, %q); ", k, fmt.Sprintf("%s:%d", filepathBase(pos.Filename), pos.Line))
						ntouch++
					}
					edits = append(edits, edit{off(st.Pos()), off(st.Pos()), b.String()})
				}
				return true
			})
			ast.Inspect(f, func(n ast.Node) bool {
				// (*os.File).Read / Close anywhere in the package go through the seam
				// (the syntactic pass only knows the field name inotifyFile)
				if ce, ok := n.(*ast.CallExpr); ok {
					if sel, ok := ce.Fun.(*ast.SelectorExpr); ok && (sel.Sel.Name == "Read" || sel.Sel.Name == "Close") {
						if t := p.TypesInfo.TypeOf(sel.X); t != nil && t.String() == "*os.File" {
							recv := string(src[off(sel.X.Pos()):off(sel.X.End())])
							if sel.Sel.Name == "Read" && len(ce.Args) == 1 {
								arg := string(src[off(ce.Args[0].Pos()):off(ce.Args[0].End())])
								edits = append(edits, edit{off(ce.Pos()), off(ce.End()), fmt.Sprintf("vsys.Read(%s, %s)", recv, arg)})
								nfiles++
								return false
							}
							if sel.Sel.Name == "Close" && len(ce.Args) == 0 {
								edits = append(edits, edit{off(ce.Pos()), off(ce.End()), fmt.Sprintf("vsys.CloseFile(%s)", recv)})
								nfiles++
								return false
							}
						}
					}
				}
				rs, ok := n.(*ast.RangeStmt)
				if !ok {
					return true
				}
				t := p.TypesInfo.TypeOf(rs.X)
				if t == nil {
					return true
				}
				x := string(src[off(rs.X.Pos()):off(rs.X.End())])
				hdrEnd := off(rs.Body.Lbrace) + 1
				key, val := "_", "_"
				if rs.Key != nil {
					key = string(src[off(rs.Key.Pos()):off(rs.Key.End())])
				}
				if rs.Value != nil {
					val = string(src[off(rs.Value.Pos()):off(rs.Value.End())])
				}
				asg := rs.Tok.String()
				if rs.Tok == token.ILLEGAL {
					asg = ":="
				}
				switch t.Underlying().(type) {
				case *types.Map:
					seq++
					m, k, okv := fmt.Sprintf("_vm%d", seq), fmt.Sprintf("_vk%d", seq), fmt.Sprintf("_vok%d", seq)
					var b strings.Builder
					fmt.Fprintf(&b, "for %s, %s := %s, 0; false; %s++ {}\n", m, k, x, k) // keeps both names used
					fmt.Fprintf(&b, "for _, %s := range vsched.MapKeys(%s) {\n", k, x)
					// bind key / value as the original loop did, skipping entries deleted meanwhile
					if val != "_" {
						if asg == ":=" {
							fmt.Fprintf(&b, "%s, %s := %s[%s]\nif !%s { continue }\n", val, okv, x, k, okv)
						} else {
							fmt.Fprintf(&b, "var %s bool\n%s, %s = %s[%s]\nif !%s { continue }\n", okv, val, okv, x, k, okv)
						}
					} else {
						fmt.Fprintf(&b, "if _, %s := %s[%s]; !%s { continue }\n", okv, x, k, okv)
					}
					if key != "_" {
						fmt.Fprintf(&b, "%s %s %s\n", key, asg, k)
						if asg == ":=" {
							fmt.Fprintf(&b, "_ = %s\n", key)
						}
					}
					_ = m
					// drop the helper first line (simpler): rebuild without it
					text := b.String()
					text = text[strings.Index(text, "\n")+1:]
					edits = append(edits, edit{off(rs.Pos()), hdrEnd, text})
					nmaps++
				case *types.Chan:
					seq++
					okv := fmt.Sprintf("_vok%d", seq)
					v := key // for a channel the single iteration variable is the "key"
					var b strings.Builder
					if v == "_" || rs.Key == nil {
						fmt.Fprintf(&b, "for {\n_, %s := vsched.Recv2(%s)\nif !%s { break }\n", okv, x, okv)
					} else if asg == ":=" {
						fmt.Fprintf(&b, "for {\n%s, %s := vsched.Recv2(%s)\nif !%s { break }\n_ = %s\n", v, okv, x, okv, v)
					} else {
						fmt.Fprintf(&b, "for {\nvar %s bool\n%s, %s = vsched.Recv2(%s)\nif !%s { break }\n", okv, v, okv, x, okv)
					}
					edits = append(edits, edit{off(rs.Pos()), hdrEnd, b.String()})
					nchans++
				}
				return true
			})
			if len(edits) == 0 {
				continue
			}
			// nested ranges: outer edits only replace the header, so offsets never overlap
			sort.SliceStable(edits, func(i, j int) bool {
				if edits[i].pos != edits[j].pos {
					return edits[i].pos < edits[j].pos
				}
				return edits[i].end < edits[j].end // insertions before replacements starting at the same place
			})
			var out strings.Builder
			at := 0
			for _, e := range edits {
				out.Write(src[at:e.pos])
				out.WriteString(e.text)
				at = e.end
			}
			out.Write(src[at:])
			if err := os.WriteFile(name, []byte(out.String()), 0o644); err != nil {
				fmt.Fprintln(os.Stderr, "vtypes:", err)
				os.Exit(2)
			}
		}
	}
	fmt.Printf("vtypes: %d map ranges ordered, %d channel ranges rewritten, %d os.File calls routed through the seam, %d map-access probes\n", nmaps, nchans, nfiles, ntouch)
}

func filepathBase(p string) string {
	if i := strings.LastIndex(p, "/"); i >= 0 {
		return p[i+1:]
	}
	return p
}
