// vrace is the free-running companion of the C07 schedule exploration: the
// same two-caller programs (Add/Remove/WatchList/Close on paths forced to
// collide, plus a filesystem thread) run on the *uninstrumented* package from
// the working tree, as real goroutines, in a binary built with -race.
//
// Why: under the cooperative scheduler every hand-over is a happens-before
// edge, so the race detector is blind there; the lockset probes cover the watch
// tables (maps) but not every field. This pass is sampling, not enumeration:
// it can only add reports (the race detector has no false positives), it is
// never the reason a property is said to hold, and the evidence lists it
// separately.
//
//	vrace [-reps n] [-only i] -log <prefix>    exit 0 / 66 (race reported)
package main

import (
	"flag"
	"fmt"
	"os"
	"path/filepath"
	"runtime"
	"strings"
	"sync"
	"time"

	"github.com/fsnotify/fsnotify"
)

type program struct {
	init   []string
	t1, t2 string
	fs     string
}

func programs() []program {
	single := []string{"A d", "A ./d", "R d", "R ./d", "A f", "A lf", "R f", "R lf", "L", "C"}
	inits := [][]string{{}, {"A d"}, {"A f"}, {"A d", "A f"}}
	fss := []string{"", "rm f", "rm f; touch f", "mv f g", "touch d/n; rm d/n"}
	var out []program
	for _, in := range inits {
		for i, a := range single {
			for j := i; j < len(single); j++ {
				for _, fs := range fss {
					out = append(out, program{in, a, single[j], fs})
				}
			}
		}
	}
	two := []string{"A f; R f", "R f; A f", "A d; R ./d", "A lf; L", "R f; L", "A f; L"}
	for _, in := range [][]string{{}, {"A f"}} {
		for i, a := range two {
			for j := i; j < len(two); j++ {
				for _, fs := range []string{"", "rm f; touch f"} {
					out = append(out, program{in, a, two[j], fs})
				}
			}
		}
	}
	return out
}

func api(w *fsnotify.Watcher, root, op string) {
	f := strings.Fields(op)
	p := ""
	if len(f) > 1 {
		p = filepath.Join(root, f[1])
		if strings.HasPrefix(f[1], "./") {
			p = root + "/./" + f[1][2:]
		}
	}
	switch f[0] {
	case "A":
		w.Add(p)
	case "R":
		w.Remove(p)
	case "L":
		w.WatchList()
	case "C":
		w.Close()
	}
}

func fsop(root, op string) {
	f := strings.Fields(op)
	switch f[0] {
	case "rm":
		os.Remove(filepath.Join(root, f[1]))
	case "touch":
		os.WriteFile(filepath.Join(root, f[1]), []byte("x"), 0o644)
	case "mv":
		os.Rename(filepath.Join(root, f[1]), filepath.Join(root, f[2]))
	}
}

func seq(ops string, f func(string)) {
	for _, op := range strings.Split(ops, ";") {
		if op = strings.TrimSpace(op); op != "" {
			f(op)
		}
	}
}

func runOne(base string, idx, rep int, p program) {
	root := filepath.Join(base, fmt.Sprintf("p%d-%d", idx, rep))
	os.MkdirAll(filepath.Join(root, "d"), 0o755)
	os.WriteFile(filepath.Join(root, "f"), []byte("x"), 0o644)
	os.WriteFile(filepath.Join(root, "d", "a"), []byte("x"), 0o644)
	os.Symlink("f", filepath.Join(root, "lf"))
	defer os.RemoveAll(root)
	w, err := fsnotify.NewWatcher()
	if err != nil {
		return
	}
	var cons sync.WaitGroup
	cons.Add(2)
	go func() {
		defer cons.Done()
		for range w.Events {
		}
	}()
	go func() {
		defer cons.Done()
		for range w.Errors {
		}
	}()
	for _, op := range p.init {
		api(w, root, op)
	}
	var wg sync.WaitGroup
	start := make(chan struct{})
	spawn := func(delay int, f func()) {
		wg.Add(1)
		go func() {
			defer wg.Done()
			<-start
			for i := 0; i < delay; i++ {
				runtime.Gosched()
			}
			f()
		}()
	}
	// the repetition number staggers the three parties differently each time
	spawn(rep%3, func() { seq(p.t1, func(op string) { api(w, root, op) }) })
	spawn((rep/3)%3, func() { seq(p.t2, func(op string) { api(w, root, op) }) })
	if p.fs != "" {
		spawn((rep/9)%3, func() { seq(p.fs, func(op string) { fsop(root, op) }) })
	}
	close(start)
	wg.Wait()
	w.WatchList()
	w.Close()
	cons.Wait()
}

func main() {
	reps := flag.Int("reps", 3, "repetitions per program")
	only := flag.Int("only", -1, "run one program only")
	list := flag.Bool("list", false, "print the programs")
	flag.Parse()
	ps := programs()
	if *list {
		for i, p := range ps {
			fmt.Printf("%d init=%v t1=%q t2=%q fs=%q\n", i, p.init, p.t1, p.t2, p.fs)
		}
		return
	}
	base, err := os.MkdirTemp("/dev/shm", "vrace-")
	if err != nil {
		base, err = os.MkdirTemp("", "vrace-")
	}
	if err != nil {
		fmt.Fprintln(os.Stderr, "vrace:", err)
		os.Exit(2)
	}
	defer os.RemoveAll(base)
	t0 := time.Now()
	runs := 0
	var mu sync.Mutex
	var wg sync.WaitGroup
	sem := make(chan struct{}, 2*runtime.NumCPU())
	for i, p := range ps {
		if *only >= 0 && i != *only {
			continue
		}
		for r := 0; r < *reps; r++ {
			wg.Add(1)
			sem <- struct{}{}
			go func(i, r int, p program) {
				defer wg.Done()
				defer func() { <-sem }()
				runOne(base, i, r, p)
				mu.Lock()
				runs++
				mu.Unlock()
			}(i, r, p)
		}
	}
	wg.Wait()
	fmt.Printf("vrace: programs=%d runs=%d wall=%.1fs\n", len(ps), runs, time.Since(t0).Seconds())
}
