// vrace is the free-running companion of the C07 schedule exploration: the
// same two-caller programs (Add/Remove/WatchList/Close on paths forced to
// collide, plus a filesystem thread) run on the *uninstrumented* package from
// the working tree, as real goroutines, in a binary built with -race.
//
// Why: under the cooperative scheduler every hand-over is a happens-before
// edge, so the race detector is blind there; the lockset probes cover the watch
// tables (maps) but not every field. This pass is sampling, not enumeration:
// it can only add reports (the race detector has no false positives), it is
// never the reason a property is said to hold, and the evidence lists it
// separately.
//
//	vrace [-reps n] [-only i] -log <prefix>    exit 0 / 66 (race reported)
package main

import (
	"flag"
	"fmt"
	"os"
	"path/filepath"
	"runtime"
	"strings"
	"sync"
	"time"

	"github.com/fsnotify/fsnotify"
)

type program struct {
	init   []string
	t1, t2 string
	fs     string
}

func programs() []program {
	single := []string{"A d", "A ./d", "R d", "R ./d", "A f", "A lf", "R f", "R lf", "L", "C"}
	inits := [][]string{{}, {"A d"}, {"A f"}, {"A d", "A f"}}
	fss := []string{"", "rm f", "rm f; touch f", "mv f g", "touch d/n; rm d/n", "mv f g; rm g"}
	var out []program
	for _, in := range inits {
		for i, a := range single {
			for j := i; j < len(single); j++ {
				for _, fs := range fss {
					out = append(out, program{in, a, single[j], fs})
				}
			}
		}
	}
	two := []string{"A f; R f", "R f; A f", "A d; R ./d", "A lf; L", "R f; L", "A f; L"}
	for _, in := range [][]string{{}, {"A f"}} {
		for i, a := range two {
			for j := i; j < len(two); j++ {
				for _, fs := range []string{"", "rm f; touch f"} {
					out = append(out, program{in, a, two[j], fs})
				}
			}
		}
	}
	return out
}

func api(w *fsnotify.Watcher, root, op string) {
	f := strings.Fields(op)
	p := ""
	if len(f) > 1 {
		p = filepath.Join(root, f[1])
		if strings.HasPrefix(f[1], "./") {
			p = root + "/./" + f[1][2:]
		}
	}
	switch f[0] {
	case "A":
		w.Add(p)
	case "R":
		w.Remove(p)
	case "L":
		w.WatchList()
	case "C":
		w.Close()
	}
}

func fsop(root, op string) {
	f := strings.Fields(op)
	switch f[0] {
	case "rm":
		os.Remove(filepath.Join(root, f[1]))
	case "touch":
		os.WriteFile(filepath.Join(root, f[1]), []byte("x"), 0o644)
	case "mv":
		os.Rename(filepath.Join(root, f[1]), filepath.Join(root, f[2]))
	}
}

func seq(ops string, f func(string)) {
	for _, op := range strings.Split(ops, ";") {
		if op = strings.TrimSpace(op); op != "" {
			f(op)
		}
	}
}

func runOne(base string, idx, rep int, p program) {
	root := filepath.Join(base, fmt.Sprintf("p%d-%d", idx, rep))
	os.MkdirAll(filepath.Join(root, "d"), 0o755)
	os.WriteFile(filepath.Join(root, "f"), []byte("x"), 0o644)
	os.WriteFile(filepath.Join(root, "d", "a"), []byte("x"), 0o644)
	os.Symlink("f", filepath.Join(root, "lf"))
	defer os.RemoveAll(root)
	w, err := fsnotify.NewWatcher()
	if err != nil {
		return
	}
	var cons sync.WaitGroup
	cons.Add(2)
	go func() {
		defer cons.Done()
		for range w.Events {
		}
	}()
	go func() {
		defer cons.Done()
		for range w.Errors {
		}
	}()
	for _, op := range p.init {
		api(w, root, op)
	}
	var wg sync.WaitGroup
	start := make(chan struct{})
	spawn := func(delay int, f func()) {
		wg.Add(1)
		go func() {
			defer wg.Done()
			<-start
			for i := 0; i < delay; i++ {
				runtime.Gosched()
			}
			f()
		}()
	}
	// the repetition number staggers the three parties differently each time
	spawn(rep%3, func() { seq(p.t1, func(op string) { api(w, root, op) }) })
	spawn((rep/3)%3, func() { seq(p.t2, func(op string) { api(w, root, op) }) })
	if p.fs != "" {
		spawn((rep/9)%3, func() { seq(p.fs, func(op string) { fsop(root, op) }) })
	}
	close(start)
	wg.Wait()
	w.WatchList()
	w.Close()
	cons.Wait()
}

// multi: several Watchers at work at the same time, each used by nobody but its own reader and consumer -
// on the same directory, on directories of their own, with bursts of distinctly named entries. Whatever the
// race detector reports here is shared between Watchers (C14); the names each Watcher delivers are compared
// with what was created as well.
func multi(base string, rounds int) (runs int, wrong []string) {
	for r := 0; r < rounds; r++ {
		root := filepath.Join(base, fmt.Sprintf("m%d", r))
		os.MkdirAll(filepath.Join(root, "shared"), 0o755)
		const K = 6
		const N = 60
		var ws []*fsnotify.Watcher
		got := make([]map[string]bool, K)
		var cons sync.WaitGroup
		for k := 0; k < K; k++ {
			os.MkdirAll(filepath.Join(root, fmt.Sprintf("own%d", k)), 0o755)
			w, err := fsnotify.NewWatcher()
			if err != nil {
				continue
			}
			w.Add(filepath.Join(root, "shared"))
			w.Add(filepath.Join(root, fmt.Sprintf("own%d", k)))
			ws = append(ws, w)
			m := map[string]bool{}
			got[k] = m
			cons.Add(2)
			go func() {
				defer cons.Done()
				for e := range w.Events {
					if e.Has(fsnotify.Create) {
						m[e.Name] = true
					}
				}
			}()
			go func() {
				defer cons.Done()
				for range w.Errors {
				}
			}()
		}
		var wg sync.WaitGroup
		for k := -1; k < K; k++ {
			wg.Add(1)
			go func(k int) {
				defer wg.Done()
				dir := filepath.Join(root, "shared")
				if k >= 0 {
					dir = filepath.Join(root, fmt.Sprintf("own%d", k))
				}
				for i := 0; i < N; i++ {
					os.WriteFile(filepath.Join(dir, fmt.Sprintf("k%d-entry-%03d-%s", k, i, strings.Repeat("x", i%17))), nil, 0o644)
				}
			}(k)
		}
		wg.Wait()
		time.Sleep(50 * time.Millisecond) // let the readers drain (what is missing is not judged, only what is wrong)
		for _, w := range ws {
			w.Close()
		}
		cons.Wait()
		for k, m := range got {
			for name := range m {
				rel, _ := filepath.Rel(root, name)
				okShared := strings.HasPrefix(rel, "shared/k-1-entry-")
				okOwn := strings.HasPrefix(rel, fmt.Sprintf("own%d/k%d-entry-", k, k))
				_, serr := os.Lstat(name)
				if !(okShared || okOwn) || serr != nil {
					wrong = append(wrong, fmt.Sprintf("watcher %d delivered Create %q, which was never created there", k, rel))
				}
			}
		}
		os.RemoveAll(root)
		runs++
	}
	return
}

func main() {
	mode := flag.String("mode", "programs", "programs | multi")
	reps := flag.Int("reps", 3, "repetitions per program")
	only := flag.Int("only", -1, "run one program only")
	list := flag.Bool("list", false, "print the programs")
	flag.Parse()
	ps := programs()
	if *list {
		for i, p := range ps {
			fmt.Printf("%d init=%v t1=%q t2=%q fs=%q\n", i, p.init, p.t1, p.t2, p.fs)
		}
		return
	}
	base, err := os.MkdirTemp("/dev/shm", "vrace-")
	if err != nil {
		base, err = os.MkdirTemp("", "vrace-")
	}
	if err != nil {
		fmt.Fprintln(os.Stderr, "vrace:", err)
		os.Exit(2)
	}
	defer os.RemoveAll(base)
	t0 := time.Now()
	if *mode == "multi" {
		n, wrong := multi(base, *reps)
		for i, w := range wrong {
			if i < 5 {
				fmt.Println("WRONG-NAME:", w)
			}
		}
		fmt.Printf("vrace: multi-watcher rounds=%d wrong_names=%d wall=%.1fs\n", n, len(wrong), time.Since(t0).Seconds())
		return
	}
	runs := 0
	var mu sync.Mutex
	var wg sync.WaitGroup
	sem := make(chan struct{}, 2*runtime.NumCPU())
	for i, p := range ps {
		if *only >= 0 && i != *only {
			continue
		}
		for r := 0; r < *reps; r++ {
			wg.Add(1)
			sem <- struct{}{}
			go func(i, r int, p program) {
				defer wg.Done()
				defer func() { <-sem }()
				runOne(base, i, r, p)
				mu.Lock()
				runs++
				mu.Unlock()
			}(i, r, p)
		}
	}
	wg.Wait()
	fmt.Printf("vrace: programs=%d runs=%d wall=%.1fs\n", len(ps), runs, time.Since(t0).Seconds())
}
