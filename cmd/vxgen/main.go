// vxgen extracts, from /repo's working tree, the pure translation functions of
// the back ends that do not compile on Linux (kqueue, Windows, FEN) plus
// internal/ztest/diff.go into scratch packages under /verif/gen so that their
// whole input domains can be enumerated on this machine.
package main

import (
	"flag"
	"fmt"
	"go/ast"
	"go/parser"
	"go/token"
	"os"
	"path/filepath"
	"regexp"
	"strings"
)

func die(f string, a ...any) {
	fmt.Fprintf(os.Stderr, "vxgen: "+f+"\n", a...)
	os.Exit(2)
}

type src struct {
	fset *token.FileSet
	f    *ast.File
	b    []byte
}

func load(path string) *src {
	b, err := os.ReadFile(path)
	if err != nil {
		die("%v", err)
	}
	fset := token.NewFileSet()
	f, err := parser.ParseFile(fset, path, b, parser.ParseComments)
	if err != nil {
		die("%v", err)
	}
	return &src{fset, f, b}
}

func (s *src) text(n ast.Node) string {
	return string(s.b[s.fset.Position(n.Pos()).Offset:s.fset.Position(n.End()).Offset])
}

func recvName(fd *ast.FuncDecl) string {
	if fd.Recv == nil || len(fd.Recv.List) != 1 {
		return ""
	}
	t := fd.Recv.List[0].Type
	if st, ok := t.(*ast.StarExpr); ok {
		t = st.X
	}
	if id, ok := t.(*ast.Ident); ok {
		return id.Name
	}
	return ""
}

func (s *src) fn(recv, name string) string {
	for _, d := range s.f.Decls {
		if fd, ok := d.(*ast.FuncDecl); ok && fd.Name.Name == name && recvName(fd) == recv {
			return s.text(fd)
		}
	}
	die("function (%s).%s not found", recv, name)
	return ""
}

func (s *src) constDecl(name string) string {
	for _, d := range s.f.Decls {
		gd, ok := d.(*ast.GenDecl)
		if !ok || gd.Tok != token.CONST {
			continue
		}
		for _, sp := range gd.Specs {
			for _, n := range sp.(*ast.ValueSpec).Names {
				if n.Name == name {
					return s.text(gd)
				}
			}
		}
	}
	die("const %s not found", name)
	return ""
}

// constsMatching copies every untyped const NAME = literal whose name matches re.
func constsMatching(path string, re *regexp.Regexp) string {
	s := load(path)
	var b strings.Builder
	b.WriteString("const (\n")
	iotaBlocks := map[*ast.GenDecl]bool{}
	for _, d := range s.f.Decls {
		gd, ok := d.(*ast.GenDecl)
		if !ok || gd.Tok != token.CONST {
			continue
		}
		for i, sp := range gd.Specs {
			vs := sp.(*ast.ValueSpec)
			for _, n := range vs.Names {
				if !re.MatchString(n.Name) {
					continue
				}
				if len(vs.Values) == 1 {
					if bl, ok := vs.Values[0].(*ast.BasicLit); ok {
						fmt.Fprintf(&b, "\t%s = %s\n", n.Name, bl.Value)
						continue
					}
				}
				// iota-style block: compute position
				if !iotaBlocks[gd] {
					iotaBlocks[gd] = true
				}
				// find the defining expression "iota + k" on the first spec
				first := gd.Specs[0].(*ast.ValueSpec)
				off := 0
				if len(first.Values) == 1 {
					if be, ok := first.Values[0].(*ast.BinaryExpr); ok {
						if bl, ok := be.Y.(*ast.BasicLit); ok {
							fmt.Sscan(bl.Value, &off)
						}
					}
				}
				fmt.Fprintf(&b, "\t%s = %d\n", n.Name, i+off)
			}
		}
	}
	b.WriteString(")\n")
	return b.String()
}

func write(path, content string) {
	os.MkdirAll(filepath.Dir(path), 0o755)
	if err := os.WriteFile(path, []byte(content), 0o644); err != nil {
		die("%v", err)
	}
}

func main() {
	repo := flag.String("repo", "/repo", "")
	out := flag.String("out", "/verif/gen", "")
	sys := flag.String("xsys", "/root/go/pkg/mod/golang.org/x/sys@v0.13.0", "")
	flag.Parse()
	xt := filepath.Join(*out, "xtab")
	os.RemoveAll(xt)
	// shared definitions (Op, Event, ...)
	fsn, err := os.ReadFile(filepath.Join(*repo, "fsnotify.go"))
	if err != nil {
		die("%v", err)
	}
	write(filepath.Join(xt, "fsn.go"), regexp.MustCompile(`(?m)^package fsnotify`).ReplaceAllString(string(fsn), "package xtab"))

	win := load(filepath.Join(*repo, "backend_windows.go"))
	write(filepath.Join(xt, "win.go"), "package xtab\n\nimport windows \"verif/gen/xtab/windows\"\n\ntype readDirChangesW struct{}\n\n"+
		win.constDecl("sysFSCREATE")+"\n\n"+win.fn("readDirChangesW", "newEvent")+"\n\n"+win.fn("readDirChangesW", "toWindowsFlags")+"\n\n"+
		win.fn("readDirChangesW", "toFSnotifyFlags")+"\n\n"+win.fn("readDirChangesW", "xSupports")+"\n\nvar WinDefaultBufferSize = "+
		func() string {
			for _, d := range win.f.Decls {
				if gd, ok := d.(*ast.GenDecl); ok && gd.Tok == token.VAR {
					for _, sp := range gd.Specs {
						vs := sp.(*ast.ValueSpec)
						if vs.Names[0].Name == "defaultBufferSize" && len(vs.Values) == 1 {
							return win.text(vs.Values[0])
						}
					}
				}
			}
			return "-1"
		}()+"\n")
	write(filepath.Join(xt, "windows", "consts.go"), "package windows\n\n"+
		constsMatching(filepath.Join(*sys, "windows", "types_windows.go"), regexp.MustCompile(`^FILE_(ACTION|NOTIFY_CHANGE)_`)))

	// (the kqueue functions are taken from the full transplant of that back end, verif/gen/kq)
	fen := load(filepath.Join(*repo, "backend_fen.go"))
	write(filepath.Join(xt, "fen.go"), "package xtab\n\ntype fen struct{}\n\n"+fen.fn("fen", "xSupports")+"\n")

	write(filepath.Join(xt, "export.go"), `package xtab

// stand-ins for what fsnotify.go expects from a back end
var defaultBufferSize = 0

func newBackend(ev chan Event, errs chan error) (backend, error) { return nil, nil }

// Exported entry points for the enumerators.
func WinNewEvent(name string, mask uint32) Event  { return (&readDirChangesW{}).newEvent(name, mask) }
func WinToWindowsFlags(mask uint64) uint32         { return (&readDirChangesW{}).toWindowsFlags(mask) }
func WinToFSnotifyFlags(action uint32) uint64      { return (&readDirChangesW{}).toFSnotifyFlags(action) }
func WinSupports(op Op) bool                       { return (&readDirChangesW{}).xSupports(op) }
func FenSupports(op Op) bool                       { return (&fen{}).xSupports(op) }

const (
	XOpen       = xUnportableOpen
	XRead       = xUnportableRead
	XCloseWrite = xUnportableCloseWrite
	XCloseRead  = xUnportableCloseRead
)
`)
	// ztest
	zt := filepath.Join(*out, "ztest")
	os.RemoveAll(zt)
	d, err := os.ReadFile(filepath.Join(*repo, "internal", "ztest", "diff.go"))
	if err != nil {
		die("%v", err)
	}
	write(filepath.Join(zt, "diff.go"), string(d))
	fmt.Println("vxgen: ok")
}
