//go:build !nokq

package main

import _ "verif/kharness" // registers the kqueue families and checks
