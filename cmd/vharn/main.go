// vharn is the harness binary: coordinator (check), worker and replay modes.
package main

import (
	"fmt"
	"os"

	"verif/harness"
)

func main() {
	if len(os.Args) < 2 {
		fmt.Fprintln(os.Stderr, "usage: vharn check <property> [--tier quick|thorough] | worker | replay <file>")
		os.Exit(2)
	}
	switch os.Args[1] {
	case "worker":
		os.Exit(harness.WorkerMain())
	case "check":
		os.Exit(harness.CheckMain(os.Args[2:]))
	case "one":
		os.Exit(harness.OneMain(os.Args[2:]))
	case "selftest":
		os.Exit(harness.SelfTestMain())
	case "replay":
		os.Exit(harness.ReplayMain(os.Args[2:]))
	default:
		fmt.Fprintln(os.Stderr, "unknown mode", os.Args[1])
		os.Exit(2)
	}
}
