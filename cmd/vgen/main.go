// vgen instruments /repo's working tree into /verif/gen/fsnotify.
package main

import (
	"flag"
	"fmt"
	"os"
	"path/filepath"

	"verif/engine/vinst"
)

func main() {
	repo := flag.String("repo", "/repo", "fsnotify source tree")
	out := flag.String("out", "/verif/gen/fsnotify", "output directory")
	lockset := flag.Bool("lockset", true, "insert lockset assertions")
	flag.Parse()
	opt := vinst.Options{
		Tags:        []string{"verif"},
		Lockset:     *lockset,
		PkgPath:     "verif/gen/fsnotify",
		InternalSrc: "github.com/fsnotify/fsnotify/internal",
	}
	res, err := vinst.Generate(*repo, *out, opt)
	if err != nil {
		fmt.Fprintln(os.Stderr, err)
		os.Exit(2)
	}
	if err := vinst.CopyPlain(filepath.Join(*repo, "internal"), filepath.Join(*out, "internal"), opt.Tags); err != nil {
		fmt.Fprintln(os.Stderr, err)
		os.Exit(2)
	}
	fmt.Printf("vgen: %d files, rewrites %v\n", len(res.Files), res.Stats)
}
