// vpure enumerates the whole (stated, finite) input domain of the pure
// functions named by C15, C16 and C20 against independent references. It is
// built against /repo's uninstrumented package (tag verif) and against the
// sources vxgen extracted from the working tree. Prints one dr.Result as JSON.
package main

import (
	"encoding/json"
	"fmt"
	"os"
	"time"

	"verif/engine/dr"
)

var deadline time.Time

func main() {
	if len(os.Args) < 3 {
		fmt.Fprintln(os.Stderr, "usage: vpure <C15|C16|C20> <quick|thorough> [deadline-unix]")
		os.Exit(2)
	}
	deadline = time.Now().Add(10 * time.Minute)
	if len(os.Args) > 3 {
		var u int64
		fmt.Sscan(os.Args[3], &u)
		deadline = time.Unix(u, 0)
	}
	var r *dr.Result
	switch os.Args[1] {
	case "C15":
		r = checkC15(os.Args[2])
	case "C16":
		r = checkC16(os.Args[2])
	case "C20":
		r = checkC20(os.Args[2])
	default:
		fmt.Fprintln(os.Stderr, "unknown property")
		os.Exit(2)
	}
	b, _ := json.Marshal(r)
	os.Stdout.Write(b)
	os.Stdout.WriteString("\n")
}

type collector struct {
	r    *dr.Result
	prop string
	seen map[string]int
}

func newCollector(prop string) *collector {
	return &collector{r: &dr.Result{Exhaustive: true, Extra: map[string]any{}}, prop: prop, seen: map[string]int{}}
}

// bad records a violation; only the first of each class is kept in full.
func (c *collector) bad(class, sig, detail string, params map[string]any) {
	c.seen[class]++
	if c.seen[class] == 1 {
		c.r.Violations = append(c.r.Violations, dr.Violation{Property: c.prop, Scenario: "pure/" + class, Params: params, Signature: sig, Detail: detail})
	}
}

func (c *collector) sample(v any) {
	if len(c.r.Samples) < 12 {
		c.r.Samples = append(c.r.Samples, v)
	}
}
