package main

import (
	"fmt"
	"strconv"
	"strings"
	"sync"
	"time"

	"verif/engine/dr"
	"verif/gen/ztest"
)

// ---------- oracle for Diff ----------

func refLines(s string) []string {
	// independent of diff.go's splitLines: the lines of the trimmed text
	return strings.Split(strings.TrimSpace(s), "\n")
}

type hunk struct {
	s, l, t, m int
	body       []string
}

func parseRange(r string) (start, length int, err error) {
	parts := strings.Split(r, ",")
	start, err = strconv.Atoi(parts[0])
	if err != nil {
		return
	}
	length = 1
	if len(parts) == 2 {
		length, err = strconv.Atoi(parts[1])
	} else if len(parts) > 2 {
		err = fmt.Errorf("bad range %q", r)
	}
	return
}

// checkDiff returns "" when out is a correct answer of Diff(a, b).
func checkDiff(a, b, out string) string {
	A, B := refLines(a), refLines(b)
	equal := strings.TrimSpace(a) == strings.TrimSpace(b)
	if out == "" {
		if !equal {
			return "empty diff for texts that differ"
		}
		return ""
	}
	if equal {
		return "non-empty diff for texts that are equal after trimming"
	}
	lines := strings.Split(out, "\n")
	// leading newline, trailing newline
	if lines[0] != "" || lines[len(lines)-1] != "" {
		return "diff is not newline-delimited"
	}
	lines = lines[1 : len(lines)-1]
	if len(lines) < 3 || !strings.HasPrefix(lines[0], "--- ") || !strings.HasPrefix(lines[1], "+++ ") {
		return "missing ---/+++ header"
	}
	var hunks []hunk
	for _, l := range lines[2:] {
		if strings.HasPrefix(l, "@@") {
			f := strings.Fields(l)
			if len(f) != 4 || f[0] != "@@" || f[3] != "@@" || !strings.HasPrefix(f[1], "-") || !strings.HasPrefix(f[2], "+") {
				return "malformed hunk header " + strconv.Quote(l)
			}
			var h hunk
			var e1, e2 error
			h.s, h.l, e1 = parseRange(f[1][1:])
			h.t, h.m, e2 = parseRange(f[2][1:])
			if e1 != nil || e2 != nil {
				return "malformed hunk range " + strconv.Quote(l)
			}
			hunks = append(hunks, h)
			continue
		}
		if len(hunks) == 0 {
			return "body line before the first hunk header"
		}
		hunks[len(hunks)-1].body = append(hunks[len(hunks)-1].body, l)
	}
	if len(hunks) == 0 {
		return "no hunk"
	}
	cur := 0 // index into A
	var res []string
	for hi, h := range hunks {
		nctx, ndel, nadd := 0, 0, 0
		start := h.s - 1
		if h.l == 0 {
			start = h.s
		}
		if start < cur || start > len(A) {
			return fmt.Sprintf("hunk %d starts at line %d, out of order or out of range", hi, h.s)
		}
		res = append(res, A[cur:start]...)
		cur = start
		tstart := h.t - 1
		if h.m == 0 {
			tstart = h.t
		}
		if tstart != len(res) {
			return fmt.Sprintf("hunk %d: +%d does not match the position in the second text (%d)", hi, h.t, len(res)+1)
		}
		lead, trail := 0, 0
		seenChange := false
		for _, l := range h.body {
			if l == "" {
				return "empty body line (no marker)"
			}
			kind := l[0]
			var content string
			switch {
			case strings.HasPrefix(l, "      "), strings.HasPrefix(l, "-have "), strings.HasPrefix(l, "+want "):
				content = l[6:]
			default:
				content = l[1:]
			}
			switch kind {
			case ' ':
				if cur >= len(A) || A[cur] != content {
					return fmt.Sprintf("hunk %d: context line %q does not match the first text", hi, content)
				}
				res = append(res, content)
				cur++
				nctx++
				if seenChange {
					trail++
				} else {
					lead++
				}
			case '-':
				if cur >= len(A) || A[cur] != content {
					return fmt.Sprintf("hunk %d: removed line %q does not match the first text", hi, content)
				}
				cur++
				ndel++
				seenChange = true
				trail = 0
			case '+':
				res = append(res, content)
				nadd++
				seenChange = true
				trail = 0
			default:
				return "body line with unknown marker " + strconv.Quote(l)
			}
		}
		if !seenChange {
			return fmt.Sprintf("hunk %d contains no change", hi)
		}
		if nctx+ndel != h.l || nctx+nadd != h.m {
			return fmt.Sprintf("hunk %d header says -%d,+%d but body has %d/%d lines", hi, h.l, h.m, nctx+ndel, nctx+nadd)
		}
		if lead > 3 || trail > 3 {
			return fmt.Sprintf("hunk %d has %d leading / %d trailing context lines (max 3)", hi, lead, trail)
		}
	}
	res = append(res, A[cur:]...)
	if strings.Join(res, "\n") != strings.Join(B, "\n") {
		return fmt.Sprintf("applying the diff to the first text gives %q, not the second text %q", strings.Join(res, "\n"), strings.Join(B, "\n"))
	}
	return ""
}

// ---------- oracle for DiffMatch ----------

type tok struct {
	kind string // lit, any, anyn, num, numn
	lit  string
	n    int
}

func refMatch(toks []tok, s string) bool {
	if len(toks) == 0 {
		return s == ""
	}
	t := toks[0]
	switch t.kind {
	case "lit":
		return strings.HasPrefix(s, t.lit) && refMatch(toks[1:], s[len(t.lit):])
	case "any", "num":
		for k := 1; k <= len(s); k++ {
			c := s[k-1]
			if c == '\n' || t.kind == "num" && (c < '0' || c > '9') {
				break
			}
			if refMatch(toks[1:], s[k:]) {
				return true
			}
		}
		return false
	case "anyn", "numn":
		if len(s) < t.n {
			return false
		}
		for k := 0; k < t.n; k++ {
			c := s[k]
			if c == '\n' || t.kind == "numn" && (c < '0' || c > '9') {
				return false
			}
		}
		return refMatch(toks[1:], s[t.n:])
	}
	return false
}

func checkC20(tier string) *dr.Result {
	c := newCollector("C20")
	var mu sync.Mutex
	var evals, states int64
	report := func(class, sig, detail string, params map[string]any) {
		mu.Lock()
		c.bad(class, sig, detail, params)
		mu.Unlock()
	}
	// ---- Diff part 1: all pairs of line sequences over {a,b,c,""} up to length L ----
	alpha := []string{"a", "b", "c", ""}
	L := 4
	if tier == "thorough" {
		L = 5
	}
	var seqs [][]string
	var gen func(cur []string, n int)
	gen = func(cur []string, n int) {
		seqs = append(seqs, append([]string{}, cur...))
		if n == 0 {
			return
		}
		for _, x := range alpha {
			gen(append(cur, x), n-1)
		}
	}
	gen(nil, L)
	texts := make([]string, len(seqs))
	for i, s := range seqs {
		texts[i] = strings.Join(s, "\n")
	}
	variants := []func(string) string{
		func(s string) string { return s },
		func(s string) string { return s + "\n" },
		func(s string) string { return "\n" + s + "  \n" },
	}
	var wg sync.WaitGroup
	nsh := 16
	for sh := 0; sh < nsh; sh++ {
		wg.Add(1)
		go func(sh int) {
			defer wg.Done()
			var ev, stt int64
			for i := sh; i < len(texts); i += nsh {
				if time.Now().After(deadline) {
					mu.Lock()
					c.r.Exhaustive = false
					mu.Unlock()
					break
				}
				for j := range texts {
					for vi, va := range variants {
						a, b := va(texts[i]), variants[(vi+1)%3](texts[j])
						out := ztest.Diff(a, b)
						ev++
						stt++
						if msg := checkDiff(a, b, out); msg != "" {
							report("diff", "Diff output wrong: "+firstWords(msg), fmt.Sprintf("Diff(%q, %q) = %q: %s", a, b, out, msg), map[string]any{"have": a, "want": b})
						}
					}
				}
			}
			mu.Lock()
			evals += ev
			states += stt
			mu.Unlock()
		}(sh)
	}
	wg.Wait()
	c.sample(map[string]any{"fn": "Diff", "have": "a\nb\nc", "want": "a\nc\nc", "got": ztest.Diff("a\nb\nc", "a\nc\nc")})

	// ---- Diff part 1b: lines are opaque text - contents that mean something to printf, to a diff reader or to a
	// tokenizer (format verbs, leading +/-/space, a hunk header, tabs, inner spaces), all pairs of sequences up to
	// length 3 (thorough: 4) over these seven lines
	special := []string{"%d", "100%", "%%s %v", "+a", "-a", " a b", "@@ -1 +1 @@", "\ta"}
	Ls := 3
	if tier == "thorough" {
		Ls = 4
	}
	var sseqs [][]string
	var sgen func(cur []string, n int)
	sgen = func(cur []string, n int) {
		sseqs = append(sseqs, append([]string{}, cur...))
		if n == 0 {
			return
		}
		for _, x := range special {
			sgen(append(cur, x), n-1)
		}
	}
	sgen(nil, Ls)
	stexts := make([]string, len(sseqs))
	for i, q := range sseqs {
		stexts[i] = strings.Join(q, "\n")
	}
	for sh := 0; sh < nsh; sh++ {
		wg.Add(1)
		go func(sh int) {
			defer wg.Done()
			var ev int64
			for i := sh; i < len(stexts); i += nsh {
				if time.Now().After(deadline) {
					mu.Lock()
					c.r.Exhaustive = false
					mu.Unlock()
					break
				}
				for j := range stexts {
					a, b := stexts[i], stexts[j]
					out := ztest.Diff(a, b)
					ev++
					if msg := checkDiff(a, b, out); msg != "" {
						report("diff", "Diff output wrong: "+firstWords(msg), fmt.Sprintf("Diff(%q, %q) = %q: %s", a, b, out, msg), map[string]any{"have": a, "want": b})
					}
				}
			}
			mu.Lock()
			evals += ev
			states += ev
			mu.Unlock()
		}(sh)
	}
	wg.Wait()

	// ---- Diff part 2: long two-letter sequences against their <=2-edit neighbours (hunk splitting, context trimming) ----
	N := 10
	maxLen := 12
	if tier == "thorough" {
		N, maxLen = 11, 14
	}
	// edits(s, lo, hi): every single-line insertion, substitution and deletion at positions lo..hi
	edits := func(s []string, lo, hi int) [][]string {
		var out [][]string
		for i := lo; i <= hi && i <= len(s); i++ {
			for _, x := range []string{"a", "b", "c"} {
				ins := append(append(append([]string{}, s[:i]...), x), s[i:]...)
				out = append(out, ins)
				if i < len(s) && s[i] != x {
					sub := append([]string{}, s...)
					sub[i] = x
					out = append(out, sub)
				}
			}
			if i < len(s) {
				del := append(append([]string{}, s[:i]...), s[i+1:]...)
				out = append(out, del)
			}
		}
		return out
	}
	var long [][]string
	for n := 7; n <= N; n++ {
		for v := 0; v < 1<<n; v++ {
			s := make([]string, n)
			for k := 0; k < n; k++ {
				s[k] = "a"
				if v&(1<<k) != 0 {
					s[k] = "b"
				}
			}
			long = append(long, s)
		}
	}
	// a few longer ones with distinct lines (numbered), where hunks split
	for n := N + 1; n <= maxLen; n++ {
		s := make([]string, n)
		for k := range s {
			s[k] = fmt.Sprintf("l%d", k)
		}
		long = append(long, s)
		r := make([]string, n)
		for k := range r {
			r[k] = []string{"a", "b"}[k%2]
		}
		long = append(long, r)
	}
	for sh := 0; sh < nsh; sh++ {
		wg.Add(1)
		go func(sh int) {
			defer wg.Done()
			var ev, stt int64
			for i := sh; i < len(long); i += nsh {
				if time.Now().After(deadline) {
					mu.Lock()
					c.r.Exhaustive = false
					mu.Unlock()
					break
				}
				a := strings.Join(long[i], "\n")
				n := len(long[i])
				var all [][]string
				for _, e1 := range edits(long[i], 0, n) {
					all = append(all, e1)
					if tier == "thorough" && n <= 9 {
						all = append(all, edits(e1, 0, len(e1))...)
					}
				}
				if n >= 9 {
					// two edits far apart (first two / last two positions): separate hunks
					for _, e1 := range edits(long[i], 0, 1) {
						all = append(all, edits(e1, len(e1)-2, len(e1))...)
					}
				}
				{
					cands := all
					for _, bl := range cands {
						b := strings.Join(bl, "\n")
						for dir := 0; dir < 2; dir++ {
							x, y := a, b
							if dir == 1 {
								x, y = b, a
							}
							out := ztest.Diff(x, y)
							ev++
							stt++
							if msg := checkDiff(x, y, out); msg != "" {
								report("diff", "Diff output wrong: "+firstWords(msg), fmt.Sprintf("Diff(%q, %q) = %q: %s", x, y, out, msg), map[string]any{"have": x, "want": y})
							}
						}
					}
				}
			}
			mu.Lock()
			evals += ev
			states += stt
			mu.Unlock()
		}(sh)
	}
	wg.Wait()
	{
		x := "l0\nl1\nl2\nl3\nl4\nl5\nl6\nl7\nl8\nl9\nl10"
		y := "X\nl1\nl2\nl3\nl4\nl5\nl6\nl7\nl8\nl9\nY"
		c.sample(map[string]any{"fn": "Diff", "have": x, "want": y, "got": ztest.Diff(x, y)})
	}

	// ---- DiffMatch ----
	year := fmt.Sprintf("%d", time.Now().UTC().Year())
	type tt struct {
		src string
		t   tok
	}
	toks := []tt{
		{"a", tok{kind: "lit", lit: "a"}}, {".", tok{kind: "lit", lit: "."}},
		{"%(ANY)", tok{kind: "any"}}, {"%(ANY 2)", tok{kind: "anyn", n: 2}},
		{"%(NUMBER)", tok{kind: "num"}}, {"%(NUMBER 2)", tok{kind: "numn", n: 2}},
		{"%(YEAR)", tok{kind: "lit", lit: year}}, {"\n", tok{kind: "lit", lit: "\n"}},
	}
	atoms := []string{"a", "b", "1", ".", year, "\n"}
	var tmpls [][]tt
	var gt func(cur []tt, n int)
	gt = func(cur []tt, n int) {
		if len(cur) > 0 {
			tmpls = append(tmpls, append([]tt{}, cur...))
		}
		if n == 0 {
			return
		}
		for _, x := range toks {
			gt(append(cur, x), n-1)
		}
	}
	gt(nil, 3)
	var txts []string
	var gx func(cur string, n int)
	gx = func(cur string, n int) {
		txts = append(txts, cur)
		if n == 0 {
			return
		}
		for _, x := range atoms {
			gx(cur+x, n-1)
		}
	}
	TL := 3
	if tier == "thorough" {
		TL = 4
	}
	gx("", TL)
	for sh := 0; sh < nsh; sh++ {
		wg.Add(1)
		go func(sh int) {
			defer wg.Done()
			var ev, stt int64
			for i := sh; i < len(tmpls); i += nsh {
				if time.Now().After(deadline) {
					mu.Lock()
					c.r.Exhaustive = false
					mu.Unlock()
					break
				}
				var src string
				var ts []tok
				for _, t := range tmpls[i] {
					src += t.src
					ts = append(ts, t.t)
				}
				// Diff/DiffMatch trim nothing before the exact-match test; texts with
				// leading/trailing newlines are legitimate inputs too
				for _, tx := range txts {
					got := ztest.DiffMatch(tx, src)
					ev++
					stt++
					want := refMatch(ts, tx)
					if (got == "") != want {
						report("diffmatch", "DiffMatch empty-ness disagrees with template matching",
							fmt.Sprintf("DiffMatch(have=%q, want=%q) = %q, reference match=%t", tx, src, got, want), map[string]any{"have": tx, "want": src})
					}
				}
			}
			mu.Lock()
			evals += ev
			states += stt
			mu.Unlock()
		}(sh)
	}
	wg.Wait()
	c.sample(map[string]any{"fn": "DiffMatch", "have": "a1.", "want": "a%(NUMBER).", "got": ztest.DiffMatch("a1.", "a%(NUMBER)."), "reference_match": true})
	c.r.States = int(states)
	c.r.Transitions = int(evals)
	c.r.Traces = int(evals)
	c.r.Extra["line_sequences"] = len(seqs)
	c.r.Extra["long_sequences"] = len(long)
	c.r.Extra["templates"] = len(tmpls)
	c.r.Extra["match_texts"] = len(txts)
	return c.r
}

func firstWords(s string) string {
	// class of the message without the data it quotes
	if i := strings.IndexAny(s, "0123456789\""); i > 0 {
		return strings.TrimSpace(s[:i])
	}
	return s
}

var _ = dr.Result{}
