package main

import (
	"fmt"
	"strconv"
	"strings"
	"sync"
	"unicode"

	"verif/engine/dr"

	"github.com/fsnotify/fsnotify"
)

// independent reference: documented names, keyed by bit value
var opNames = []struct {
	bit  uint32
	name string
}{
	{1, "CREATE"}, {2, "WRITE"}, {4, "REMOVE"}, {8, "RENAME"}, {16, "CHMOD"},
	{32, "OPEN"}, {64, "READ"}, {128, "CLOSE_WRITE"}, {256, "CLOSE_READ"},
}

const definedMask = 0x1ff

// total: the methods must not panic for any input
func safeString(f func() string) (s string, panicked string) {
	defer func() {
		if r := recover(); r != nil {
			panicked = fmt.Sprint(r)
		}
	}()
	return f(), ""
}

func checkC16(tier string) *dr.Result {
	c := newCollector("C16")
	// the constants themselves (the reference above is keyed by value)
	consts := map[string]fsnotify.Op{"CREATE": fsnotify.Create, "WRITE": fsnotify.Write, "REMOVE": fsnotify.Remove, "RENAME": fsnotify.Rename,
		"CHMOD": fsnotify.Chmod, "OPEN": fsnotify.VerifUnportableOpen, "READ": fsnotify.VerifUnportableRead,
		"CLOSE_WRITE": fsnotify.VerifUnportableCloseWrite, "CLOSE_READ": fsnotify.VerifUnportableCloseRead}
	for _, on := range opNames {
		c.r.Transitions++
		if uint32(consts[on.name]) != on.bit {
			c.bad("const", "Op constant "+on.name+" has an unexpected value", fmt.Sprintf("%s = %#x, want %#x", on.name, uint32(consts[on.name]), on.bit), nil)
		}
	}

	// ---- Has ----
	var dom []uint32
	if tier == "thorough" {
		for v := uint32(0); v < 1<<16; v++ {
			dom = append(dom, v)
		}
	} else {
		for v := uint32(0); v < 1<<9; v++ {
			dom = append(dom, v)
		}
		for b := 9; b < 32; b++ {
			dom = append(dom, 1<<b, 1<<b|1, 1<<b|definedMask)
		}
	}
	dom = append(dom, 0xffffffff, 0xfffffe00, 0x80000000, 0xffff0000)
	var mu sync.Mutex
	var wg sync.WaitGroup
	nshard := 16
	evals := make([]int, nshard)
	for sh := 0; sh < nshard; sh++ {
		wg.Add(1)
		go func(sh int) {
			defer wg.Done()
			for i := sh; i < len(dom); i += nshard {
				o := dom[i]
				e := fsnotify.Event{Name: "n", Op: fsnotify.Op(o)}
				ef := fsnotify.VerifEvent("n", fsnotify.Op(o), "old") // an event that carries the old name of a rename
				for _, h := range dom {
					want := o&h != 0
					got := fsnotify.Op(o).Has(fsnotify.Op(h))
					got2, got3 := e.Has(fsnotify.Op(h)), ef.Has(fsnotify.Op(h))
					evals[sh] += 3
					if got != want || got2 != want || got3 != want {
						mu.Lock()
						c.bad("has", fmt.Sprintf("Op.Has disagrees with set intersection (e.g. o=%#x h=%#x)", o, h),
							fmt.Sprintf("Op(%#x).Has(%#x)=%t Event.Has=%t Event.Has (event with an old name)=%t want %t", o, h, got, got2, got3, want), map[string]any{"o": o, "h": h})
						mu.Unlock()
					}
				}
			}
		}(sh)
	}
	wg.Wait()
	for _, n := range evals {
		c.r.Transitions += n
	}
	c.r.States += len(dom) * len(dom)
	c.sample(map[string]any{"fn": "Op.Has", "o": "0x105", "h": "0x4", "want": true})

	// ---- Op.String ----
	// order: derived from the rendering of the full defined set, then every
	// rendering must be the sub-sequence of it selected by its defined bits
	full, _ := safeString(func() string { return fsnotify.Op(definedMask).String() })
	order := strings.Split(full, "|")
	c.r.Transitions++
	{
		seen := map[string]bool{}
		for _, n := range order {
			seen[n] = true
		}
		ok := len(order) == len(opNames)
		for _, on := range opNames {
			if !seen[on.name] {
				ok = false
			}
		}
		if !ok {
			c.bad("string", "Op.String of the full defined set does not name each defined operation exactly once", full, nil)
		}
	}
	nameBit := map[string]uint32{}
	for _, on := range opNames {
		nameBit[on.name] = on.bit
	}
	ref := func(v uint32) string {
		var parts []string
		for _, n := range order {
			if v&nameBit[n] != 0 {
				parts = append(parts, n)
			}
		}
		if len(parts) == 0 {
			return "[no events]"
		}
		return strings.Join(parts, "|")
	}
	var sdom []uint32
	for v := uint32(0); v < 1<<16; v++ {
		sdom = append(sdom, v)
	}
	for v := uint32(0); v < 1<<9; v++ {
		for b := 16; b < 32; b++ {
			sdom = append(sdom, v|1<<b)
		}
		sdom = append(sdom, v|0xfffffe00)
	}
	render := map[string]uint32{}
	for _, v := range sdom {
		got, pan := safeString(func() string { return fsnotify.Op(v).String() })
		c.r.Transitions++
		want := ref(v)
		if pan != "" {
			c.bad("string-panic", fmt.Sprintf("Op.String panics (e.g. for %#x)", v), fmt.Sprintf("Op(%#x).String() panicked: %s", v, pan), map[string]any{"op": v})
			continue
		}
		if got != want {
			c.bad("string", fmt.Sprintf("Op.String wrong (e.g. for %#x)", v), fmt.Sprintf("Op(%#x).String()=%q want %q", v, got, want), map[string]any{"op": v})
		}
		if v <= definedMask {
			if prev, dup := render[got]; dup {
				c.bad("string-injective", "two different defined sets render the same", fmt.Sprintf("%#x and %#x both render %q", prev, v, got), nil)
			}
			render[got] = v
		}
	}
	c.r.States += len(sdom)
	c.r.Extra["distinct_renderings_of_defined_sets"] = len(render)
	c.sample(map[string]any{"fn": "Op.String", "op": "0x10d", "want": ref(0x10d)})

	// ---- Event.String ----
	long := strings.Repeat("x", 255)
	names := []string{"", "a", "/tmp/file", `with "quotes"`, "multi\nline", "tab\there", "bad\xffutf8", "\x00nul", "sp ace", "←", "a ← b", long, "ünï/cödé"}
	froms := append([]string{}, names...)
	ops := []uint32{0, 1, 2, 4, 8, 16, 3, 0x1ff, 0x200, 0x109, 128, 256, 0x10000, 0xffff0000}
	// every byte value on its own and embedded (control characters, DEL, quote, backslash, bytes that are not
	// UTF-8), and runes Go's %q escapes although they are valid UTF-8
	var bytewise []string
	for b := 0; b < 256; b++ {
		bytewise = append(bytewise, string([]byte{byte(b)}), "a"+string([]byte{byte(b)})+"b")
	}
	bytewise = append(bytewise, "nel\u0085", "ls\u2028x", "\ufeffbom", "\u00a0", "\u200b", "\U000e0001", "\ufffd", "\xed\xa0\x80")
	type pair struct{ n, f string }
	var pairs []pair
	for _, n := range names {
		for _, f := range froms {
			pairs = append(pairs, pair{n, f})
		}
	}
	for _, bw := range bytewise {
		pairs = append(pairs, pair{bw, ""}, pair{"n", bw}, pair{bw, bw})
	}
	for _, pr := range pairs {
		n, f := pr.n, pr.f
		{
			for _, o := range ops {
				e := fsnotify.VerifEvent(n, fsnotify.Op(o), f)
				got, pan := safeString(func() string { return e.String() })
				c.r.Transitions++
				c.r.States++
				if pan != "" {
					c.bad("string-panic", "Event.String panics", fmt.Sprintf("Event{%q,%#x,from=%q}.String() panicked: %s", n, o, f, pan), nil)
					continue
				}
				if msg := eventStringOK(got, ref(o), n, f); msg != "" {
					c.bad("event-string", "Event.String does not show op text, quoted name and old name as specified: "+msg,
						fmt.Sprintf("Event{%q,%#x,from=%q}.String()=%q: %s", n, o, f, got, msg), map[string]any{"name": n, "op": o, "from": f})
				}
			}
		}
	}
	c.sample(map[string]any{"fn": "Event.String", "name": "multi\nline", "op": 1, "from": "a", "got": fsnotify.VerifEvent("multi\nline", 1, "a").String()})
	c.r.Traces = c.r.Transitions
	c.r.Extra["has_domain_size"] = len(dom)
	return c.r
}

// eventStringOK: s = <op text><spaces><quoted name>[<spaces>←<spaces><quoted from>]
func eventStringOK(s, opText, name, from string) string {
	if !strings.HasPrefix(s, opText) {
		return "does not start with the Op rendering"
	}
	rest := strings.TrimLeftFunc(s[len(opText):], unicode.IsSpace)
	if rest == s[len(opText):] {
		return "no separator after the Op rendering"
	}
	qn := strconv.Quote(name)
	if !strings.HasPrefix(rest, qn) {
		return "quoted name missing"
	}
	rest = rest[len(qn):]
	if from == "" {
		if rest != "" {
			return "text after the name although there is no old name"
		}
		return ""
	}
	rest = strings.TrimLeftFunc(rest, unicode.IsSpace)
	if !strings.HasPrefix(rest, "←") {
		return "old name marker missing"
	}
	rest = strings.TrimLeftFunc(strings.TrimPrefix(rest, "←"), unicode.IsSpace)
	if rest != strconv.Quote(from) {
		return "old name not shown (quoted) at the end"
	}
	return ""
}
