package main

import (
	"fmt"
	"os"
	"path/filepath"
	"strconv"
	"strings"
	"syscall"

	"verif/engine/dr"
	kq "verif/gen/kq"
	"verif/gen/xtab"

	"github.com/fsnotify/fsnotify"
)

// Linux inotify bits (inotify(7)); written out here, independent of x/sys.
const (
	inACCESS       = 0x1
	inMODIFY       = 0x2
	inATTRIB       = 0x4
	inCLOSEWRITE   = 0x8
	inCLOSENOWRITE = 0x10
	inOPEN         = 0x20
	inMOVEDFROM    = 0x40
	inMOVEDTO      = 0x80
	inCREATE       = 0x100
	inDELETE       = 0x200
	inDELETESELF   = 0x400
	inMOVESELF     = 0x800
	inUNMOUNT      = 0x2000
	inQOVERFLOW    = 0x4000
	inIGNORED      = 0x8000
	inISDIR        = 0x40000000
)

const (
	opCreate = 1 << iota
	opWrite
	opRemove
	opRename
	opChmod
	opOpen
	opRead
	opCloseWrite
	opCloseRead
)

// documented translation: native flag -> portable operation
var inotifyToOp = []struct{ flag, op uint32 }{
	{inCREATE, opCreate}, {inMOVEDTO, opCreate},
	{inDELETE, opRemove}, {inDELETESELF, opRemove},
	{inMODIFY, opWrite},
	{inMOVEDFROM, opRename}, {inMOVESELF, opRename},
	{inATTRIB, opChmod},
	{inOPEN, opOpen}, {inACCESS, opRead}, {inCLOSEWRITE, opCloseWrite}, {inCLOSENOWRITE, opCloseRead},
}

// documented subscription: operation -> native flags needed to observe it
var opToInotify = map[uint32]uint32{
	opCreate: inCREATE, opWrite: inMODIFY, opRemove: inDELETE | inDELETESELF,
	opRename: inMOVEDTO | inMOVEDFROM | inMOVESELF, opChmod: inATTRIB,
	opOpen: inOPEN, opRead: inACCESS, opCloseWrite: inCLOSEWRITE, opCloseRead: inCLOSENOWRITE,
}

func spread(v uint32, bits []uint32) uint32 {
	var m uint32
	for i, b := range bits {
		if v&(1<<i) != 0 {
			m |= b
		}
	}
	return m
}

func checkC15(tier string) *dr.Result {
	c := newCollector("C15")
	// ---------- inotify: native -> portable ----------
	bits := []uint32{inACCESS, inMODIFY, inATTRIB, inCLOSEWRITE, inCLOSENOWRITE, inOPEN, inMOVEDFROM, inMOVEDTO, inCREATE, inDELETE,
		inDELETESELF, inMOVESELF, inUNMOUNT, inQOVERFLOW, inIGNORED, inISDIR}
	for v := uint32(0); v < 1<<len(bits); v++ {
		mask := spread(v, bits)
		var want uint32
		for _, t := range inotifyToOp {
			if mask&t.flag != 0 {
				want |= t.op
			}
		}
		ev := fsnotify.VerifNewEvent("some/name", mask, 0)
		c.r.Transitions++
		if uint32(ev.Op) != want || ev.Name != "some/name" {
			c.bad("inotify-newEvent", fmt.Sprintf("inotify mask translation differs from the documented union (e.g. mask %#x)", mask),
				fmt.Sprintf("newEvent(mask=%#x) = %s (%#x) name=%q, want op %#x", mask, ev.Op, uint32(ev.Op), ev.Name, want), map[string]any{"mask": mask})
		}
	}
	c.r.States += 1 << len(bits)
	c.sample(map[string]any{"table": "inotify newEvent", "mask": "IN_MOVED_TO|IN_ATTRIB|IN_ISDIR", "want": "CREATE|CHMOD"})

	// ---------- inotify: requested ops -> kernel mask (read back from the kernel) ----------
	c15Request(c, tier)

	// ---------- kqueue ----------
	kbits := []uint32{0x1, 0x2, 0x4, 0x8, 0x10, 0x20, 0x40, 0x80, 0x100, 0x200, 0x400} // DELETE WRITE EXTEND ATTRIB LINK RENAME REVOKE OPEN CLOSE CLOSE_WRITE READ
	for v := uint32(0); v < 1<<len(kbits); v++ {
		mask := spread(v, kbits)
		for _, link := range []string{"", "the/link"} {
			var want uint32
			if mask&0x1 != 0 {
				want |= opRemove
			}
			if mask&0x2 != 0 {
				want |= opWrite
			}
			if mask&0x20 != 0 {
				want |= opRename
			}
			if mask&0x8 != 0 {
				want |= opChmod
			}
			if want&opRemove != 0 { // the documented kqueue exception
				want &^= opWrite
			}
			wantName := "the/target"
			if link != "" {
				wantName = link
			}
			ev := kq.VerifKqNewEvent("the/target", link, mask)
			c.r.Transitions++
			if uint32(ev.Op) != want || ev.Name != wantName {
				c.bad("kqueue-newEvent", fmt.Sprintf("kqueue fflags translation differs from the documented table (e.g. fflags %#x link=%q)", mask, link),
					fmt.Sprintf("newEvent(%q,%q,%#x) = %s name=%q, want op %#x name %q", "the/target", link, mask, ev.Op, ev.Name, want, wantName), map[string]any{"fflags": mask, "link": link})
			}
		}
	}
	c.r.States += 2 << len(kbits)
	c.r.Transitions++
	if kq.VerifKqNoteAllEvents != 0x1|0x2|0x8|0x20 {
		c.bad("kqueue-subscribe", "kqueue subscribes to a different note set than DELETE|WRITE|ATTRIB|RENAME",
			fmt.Sprintf("noteAllEvents=%#x want %#x", uint32(kq.VerifKqNoteAllEvents), 0x2b), nil)
	}
	// every portable op must be producible from the subscribed notes, and every subscribed note must produce one
	{
		var producible uint32
		for _, b := range []uint32{0x1, 0x2, 0x8, 0x20} {
			if uint32(kq.VerifKqNoteAllEvents)&b != 0 {
				producible |= uint32(kq.VerifKqNewEvent("n", "", b).Op)
			}
		}
		c.r.Transitions += 4
		if producible != opRemove|opWrite|opChmod|opRename {
			c.bad("kqueue-subscribe", "an operation is unobservable with the notes kqueue subscribes to", fmt.Sprintf("producible ops %#x", producible), nil)
		}
	}
	c.sample(map[string]any{"table": "kqueue newEvent", "fflags": "NOTE_DELETE|NOTE_WRITE", "want": "REMOVE (Write dropped)"})

	// ---------- Windows ----------
	wbits := []uint32{0x1, 0x2, 0x4, 0x8, 0x10, 0x20, 0x40, 0x80, 0x100, 0x200, 0x400, 0x800, 0x8000}
	for v := uint32(0); v < 1<<len(wbits); v++ {
		mask := spread(v, wbits)
		var want uint32
		if mask&0x100 != 0 || mask&0x80 != 0 {
			want |= opCreate
		}
		if mask&0x200 != 0 || mask&0x400 != 0 {
			want |= opRemove
		}
		if mask&0x2 != 0 {
			want |= opWrite
		}
		if mask&0x40 != 0 || mask&0x800 != 0 {
			want |= opRename
		}
		ev := xtab.WinNewEvent("n", mask)
		c.r.Transitions++
		if uint32(ev.Op) != want || ev.Name != "n" {
			c.bad("windows-newEvent", fmt.Sprintf("windows mask translation differs from the documented table (e.g. mask %#x)", mask),
				fmt.Sprintf("newEvent(%#x) = %s, want %#x", mask, ev.Op, want), map[string]any{"mask": mask})
		}
		if uint32(ev.Op)&opChmod != 0 {
			c.bad("windows-chmod", "windows produced Chmod", fmt.Sprintf("mask %#x", mask), nil)
		}
		var wantW uint32
		if mask&0x2 != 0 {
			wantW |= 0x10 // LAST_WRITE
		}
		if mask&(0xc0|0x100|0x200) != 0 {
			wantW |= 0x1 | 0x2 // FILE_NAME | DIR_NAME
		}
		gotW := xtab.WinToWindowsFlags(uint64(mask))
		c.r.Transitions++
		if gotW != wantW {
			c.bad("windows-subscribe", fmt.Sprintf("windows notify filter differs from what the requested mask needs (e.g. mask %#x)", mask),
				fmt.Sprintf("toWindowsFlags(%#x)=%#x want %#x", mask, gotW, wantW), map[string]any{"mask": mask})
		}
	}
	c.r.States += 1 << len(wbits)
	actWant := map[uint32]uint64{1: 0x100, 2: 0x200, 3: 0x2, 4: 0x40, 5: 0x80}
	actOp := map[uint32]uint32{1: opCreate, 2: opRemove, 3: opWrite, 4: opRename, 5: opCreate}
	for a := uint32(0); a <= 8; a++ {
		got := xtab.WinToFSnotifyFlags(a)
		c.r.Transitions++
		c.r.States++
		if got != actWant[a] {
			c.bad("windows-action", fmt.Sprintf("FILE_ACTION %d translated wrongly", a), fmt.Sprintf("toFSnotifyFlags(%d)=%#x want %#x", a, got, actWant[a]), nil)
		}
		if op := uint32(xtab.WinNewEvent("n", uint32(got)).Op); op != actOp[a] {
			c.bad("windows-action", fmt.Sprintf("FILE_ACTION %d ends up as the wrong operation", a), fmt.Sprintf("action %d -> op %#x want %#x", a, op, actOp[a]), nil)
		}
	}
	c.sample(map[string]any{"table": "windows toFSnotifyFlags∘newEvent", "action": "FILE_ACTION_RENAMED_NEW_NAME", "want": "CREATE"})

	// ---------- xSupports ----------
	for v := uint32(0); v < 1<<9; v++ {
		portableOnly := v&(opOpen|opRead|opCloseWrite|opCloseRead) == 0
		c.r.Transitions += 3
		c.r.States++
		if kq.VerifKqSupports(kq.Op(v)) != portableOnly {
			c.bad("supports", "kqueue xSupports wrong", fmt.Sprintf("op %#x", v), nil)
		}
		if xtab.WinSupports(xtab.Op(v)) != portableOnly {
			c.bad("supports", "windows xSupports wrong", fmt.Sprintf("op %#x", v), nil)
		}
		if xtab.FenSupports(xtab.Op(v)) != portableOnly {
			c.bad("supports", "fen xSupports wrong", fmt.Sprintf("op %#x", v), nil)
		}
	}
	c.r.Traces = c.r.Transitions
	return c.r
}

// c15Request: for every subset of the nine operations x {follow, no-follow},
// a real AddWith on a real Watcher; the mask the kernel holds is read back
// from /proc/self/fdinfo.
func c15Request(c *collector, tier string) {
	dir, err := os.MkdirTemp("/dev/shm", "c15-")
	if err != nil {
		dir, err = os.MkdirTemp("", "c15-")
	}
	if err != nil {
		c.r.EngineErr = err.Error()
		return
	}
	defer os.RemoveAll(dir)
	target := filepath.Join(dir, "target")
	link := filepath.Join(dir, "link")
	os.WriteFile(target, []byte("x"), 0o644)
	os.Symlink(target, link)
	ino := func(p string, follow bool) uint64 {
		var st syscall.Stat_t
		if follow {
			syscall.Stat(p, &st)
		} else {
			syscall.Lstat(p, &st)
		}
		return st.Ino
	}
	w, err := fsnotify.NewWatcher()
	if err != nil {
		c.r.EngineErr = err.Error()
		return
	}
	defer w.Close()
	go func() {
		for range w.Events {
		}
	}()
	go func() {
		for range w.Errors {
		}
	}()
	fd := fsnotify.VerifFd(w)
	for v := uint32(0); v < 1<<9; v++ {
		for _, nofollow := range []bool{false, true} {
			opts := []any{}
			_ = opts
			var e error
			if nofollow {
				e = w.AddWith(link, fsnotify.VerifWithOps(fsnotify.Op(v)), fsnotify.VerifWithNoFollow())
			} else {
				e = w.AddWith(link, fsnotify.VerifWithOps(fsnotify.Op(v)))
			}
			c.r.Transitions++
			c.r.States++
			var want uint32
			for op, fl := range opToInotify {
				if v&op != 0 {
					want |= fl
				}
			}
			marks := readMarks(fd)
			if v == 0 {
				// nothing requested: the property only demands that nothing
				// unrelated is subscribed (either an error and no mark, or a
				// mark without event bits)
				if e != nil && len(marks) != 0 || e == nil && (len(marks) != 1 || marks[0].mask&0xfff != 0) {
					c.bad("inotify-request", "AddWith with an empty operation set subscribed to something", fmt.Sprintf("err=%v marks=%v", e, marks), nil)
				}
				if e == nil {
					w.Remove(link)
				}
				continue
			}
			if e != nil {
				c.bad("inotify-request", fmt.Sprintf("AddWith failed for a valid operation set (e.g. %#x)", v), fmt.Sprintf("ops=%#x nofollow=%t err=%v", v, nofollow, e), nil)
				continue
			}
			wantIno := ino(link, !nofollow)
			if len(marks) != 1 || marks[0].mask&0xfff != want || marks[0].ino != wantIno {
				c.bad("inotify-request", fmt.Sprintf("kernel-side mask differs from the flags needed for the requested operations (e.g. ops %#x)", v),
					fmt.Sprintf("ops=%#x nofollow=%t kernel marks=%+v want mask %#x on inode %d", v, nofollow, marks, want, wantIno), map[string]any{"ops": v, "nofollow": nofollow})
			}
			if e := w.Remove(link); e != nil {
				c.bad("inotify-request", "Remove after AddWith failed", e.Error(), nil)
			}
		}
	}
	c.sample(map[string]any{"table": "inotify AddWith request", "ops": "REMOVE|RENAME", "nofollow": true, "want_kernel_mask": fmt.Sprintf("%#x", inDELETE|inDELETESELF|inMOVEDTO|inMOVEDFROM|inMOVESELF)})
	// Not only from the initial state: sequences of requests for the same path.
	// Everything requested for a path while it stays watched must remain
	// observable, and nothing else may be subscribed: after AddWith(s1) ...
	// AddWith(sk) the kernel-side mask is exactly the flags for s1|...|sk.
	// Every ordered triple of non-empty subsets of the five portable
	// operations (quick), plus every ordered pair of non-empty subsets of all
	// nine and every ordered triple over the nine single operations and the
	// default set (thorough).
	wantFor := func(v uint32) uint32 {
		var want uint32
		for op, fl := range opToInotify {
			if v&op != 0 {
				want |= fl
			}
		}
		return want
	}
	seqBad := false
	runSeq := func(seq []uint32) {
		var union uint32
		for i, v := range seq {
			union |= v
			e := w.AddWith(target, fsnotify.VerifWithOps(fsnotify.Op(v)))
			c.r.Transitions++
			marks := readMarks(fd)
			if e != nil || len(marks) != 1 || marks[0].mask&0xfff != wantFor(union) {
				if !seqBad {
					c.bad("inotify-request", "after several requests for one path the kernel-side mask is not the flags needed for everything requested",
						fmt.Sprintf("AddWith sequence %#x, after call %d: err=%v kernel marks=%+v want mask %#x", seq, i+1, e, marks, wantFor(union)), map[string]any{"seq": seq})
				}
				seqBad = true
				break
			}
		}
		c.r.States++
		w.Remove(target)
	}
	for a := uint32(1); a < 32; a++ {
		for b := uint32(1); b < 32; b++ {
			for d := uint32(1); d < 32; d++ {
				runSeq([]uint32{a, b, d})
			}
		}
	}
	c.r.Extra["inotify_request_sequences"] = "all ordered triples of non-empty subsets of the 5 portable operations"
	if tier == "thorough" {
		for a := uint32(1); a < 512; a++ {
			for b := uint32(1); b < 512; b++ {
				runSeq([]uint32{a, b})
			}
		}
		singles := []uint32{1, 2, 4, 8, 16, 32, 64, 128, 256, 0x1f}
		for _, a := range singles {
			for _, b := range singles {
				for _, d := range singles {
					for _, e := range singles {
						runSeq([]uint32{a, b, d, e})
					}
				}
			}
		}
		c.r.Extra["inotify_request_sequences"] = "all ordered triples of non-empty subsets of the 5 portable operations; all ordered pairs of non-empty subsets of the 9 operations; all ordered 4-tuples over the 9 single operations and the default set"
	}
	// the default set
	if uint32(fsnotify.VerifDefaultOps()) != opCreate|opWrite|opRemove|opRename|opChmod {
		c.bad("inotify-request", "default operation set is not the five portable operations", fmt.Sprint(fsnotify.VerifDefaultOps()), nil)
	}
	for v := uint32(0); v < 1<<9; v++ {
		c.r.Transitions++
		if !fsnotify.VerifSupports(w, fsnotify.Op(v)) {
			c.bad("supports", "inotify xSupports wrong", fmt.Sprintf("op %#x", v), nil)
		}
	}
}

type mark struct {
	wd   int
	ino  uint64
	mask uint32
}

func readMarks(fd int) []mark {
	b, err := os.ReadFile(fmt.Sprintf("/proc/self/fdinfo/%d", fd))
	if err != nil {
		return nil
	}
	var out []mark
	for _, l := range strings.Split(string(b), "\n") {
		if !strings.HasPrefix(l, "inotify ") {
			continue
		}
		var m mark
		for _, f := range strings.Fields(l) {
			kv := strings.SplitN(f, ":", 2)
			if len(kv) != 2 {
				continue
			}
			switch kv[0] {
			case "wd":
				m.wd, _ = strconv.Atoi(kv[1])
			case "ino":
				m.ino, _ = strconv.ParseUint(kv[1], 16, 64)
			case "mask":
				v, _ := strconv.ParseUint(kv[1], 16, 32)
				m.mask = uint32(v)
			}
		}
		out = append(out, m)
	}
	return out
}

var _ = dr.Result{}
